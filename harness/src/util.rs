//! Shared machinery: scratch trees, snapshots, sentinel mtimes, evidence, replays, known findings.
#![allow(dead_code)]

use serde_json::{json, Value};
use std::collections::BTreeMap;
use std::ffi::CString;
use std::os::unix::ffi::OsStrExt;
use std::os::unix::fs::MetadataExt;
use std::path::{Path, PathBuf};
use std::sync::atomic::{AtomicU64, AtomicUsize, Ordering};
use std::sync::Mutex;
use std::time::Instant;

pub const VERIF_ROOT: &str = "/verif";
/// evidence, replays and known findings live here (tools/mutlab.py points its lanes elsewhere)
pub fn verif_root() -> PathBuf {
    PathBuf::from(std::env::var("VERIF_ROOT_DIR").unwrap_or_else(|_| VERIF_ROOT.to_string()))
}
pub static PANIC_LOG: Mutex<Vec<String>> = Mutex::new(Vec::new());
/// set by main: re-executes one replay description, true if the violation is still there
pub static REPLAYER: std::sync::OnceLock<fn(&str, &Value) -> bool> = std::sync::OnceLock::new();

// ---------------------------------------------------------------- scratch

static SCRATCH_N: AtomicU64 = AtomicU64::new(0);

pub fn scratch_root() -> PathBuf {
    let base = if Path::new("/dev/shm").is_dir() {
        PathBuf::from("/dev/shm")
    } else {
        std::env::temp_dir()
    };
    let seed = std::env::var("VERIF_SEED").unwrap_or_default();
    let p = base.join(format!("txtpp-verif.{}.{}", std::process::id(), seed));
    let _ = std::fs::create_dir_all(&p);
    // canonical: the subject canonicalises paths, the harness compares with them
    p.canonicalize().unwrap_or(p)
}

pub fn cleanup_scratch_root() {
    let _ = std::fs::remove_dir_all(scratch_root());
}

/// A fresh directory removed on drop
pub struct Scratch {
    pub path: PathBuf,
}

impl Scratch {
    pub fn new() -> Self {
        let n = SCRATCH_N.fetch_add(1, Ordering::Relaxed);
        let path = scratch_root().join(format!("c{n}"));
        let _ = std::fs::remove_dir_all(&path);
        std::fs::create_dir_all(&path).expect("scratch dir");
        Scratch { path }
    }
    pub fn p(&self, rel: &str) -> PathBuf {
        self.path.join(rel)
    }
}

impl Drop for Scratch {
    fn drop(&mut self) {
        let _ = std::fs::remove_dir_all(&self.path);
    }
}

// ---------------------------------------------------------------- trees

#[derive(Clone, Debug, PartialEq, Eq, PartialOrd, Ord, Hash)]
pub enum Node {
    File(Vec<u8>),
    Dir,
    Link(String),
}

/// relative path -> node; parents are created implicitly
pub type Tree = BTreeMap<String, Node>;

pub fn tfile(t: &mut Tree, path: &str, content: impl AsRef<[u8]>) {
    t.insert(path.to_string(), Node::File(content.as_ref().to_vec()));
}

pub fn write_tree(root: &Path, tree: &Tree) {
    for (rel, node) in tree {
        let p = root.join(rel);
        if let Some(parent) = p.parent() {
            std::fs::create_dir_all(parent).expect("mkdir parent");
        }
        match node {
            Node::File(b) => std::fs::write(&p, b).unwrap_or_else(|e| panic!("write {p:?}: {e}")),
            Node::Dir => std::fs::create_dir_all(&p).expect("mkdir"),
            Node::Link(t) => {
                let _ = std::fs::remove_file(&p);
                std::os::unix::fs::symlink(t, &p).expect("symlink")
            }
        }
    }
}

#[derive(Clone, Debug, PartialEq, Eq)]
pub struct Meta {
    pub node: Node,
    pub ino: u64,
    pub mtime_ns: i128,
}

pub type Snapshot = BTreeMap<String, Meta>;

fn walk(root: &Path, rel: &str, out: &mut Snapshot) {
    let dir = if rel.is_empty() { root.to_path_buf() } else { root.join(rel) };
    let rd = match std::fs::read_dir(&dir) {
        Ok(r) => r,
        Err(_) => return,
    };
    for e in rd.flatten() {
        let name = e.file_name().to_string_lossy().to_string();
        let r = if rel.is_empty() { name } else { format!("{rel}/{name}") };
        let p = root.join(&r);
        let md = match std::fs::symlink_metadata(&p) {
            Ok(m) => m,
            Err(_) => continue,
        };
        let mt = md.mtime() as i128 * 1_000_000_000 + md.mtime_nsec() as i128;
        if md.file_type().is_symlink() {
            let t = std::fs::read_link(&p).map(|t| t.to_string_lossy().to_string()).unwrap_or_default();
            out.insert(r, Meta { node: Node::Link(t), ino: md.ino(), mtime_ns: mt });
        } else if md.is_dir() {
            out.insert(r.clone(), Meta { node: Node::Dir, ino: md.ino(), mtime_ns: mt });
            walk(root, &r, out);
        } else {
            let b = std::fs::read(&p).unwrap_or_default();
            out.insert(r, Meta { node: Node::File(b), ino: md.ino(), mtime_ns: mt });
        }
    }
}

pub fn snapshot(root: &Path) -> Snapshot {
    let mut s = Snapshot::new();
    walk(root, "", &mut s);
    s
}

pub fn snap_tree(s: &Snapshot) -> Tree {
    s.iter().map(|(k, v)| (k.clone(), v.node.clone())).collect()
}

/// 2001-01-01T00:00:00Z
pub const SENTINEL_S: i64 = 978_307_200;
pub const SENTINEL_NS: i128 = SENTINEL_S as i128 * 1_000_000_000;

pub fn set_sentinel(root: &Path) {
    fn rec(p: &Path) {
        if let Ok(rd) = std::fs::read_dir(p) {
            for e in rd.flatten() {
                let path = e.path();
                let is_dir = std::fs::symlink_metadata(&path).map(|m| m.is_dir()).unwrap_or(false);
                if is_dir {
                    rec(&path);
                }
                touch_sentinel(&path);
            }
        }
    }
    rec(root);
}

/// set atime and mtime of `path` (not following links) to SENTINEL + `offset_s` seconds
pub fn touch_at(path: &Path, offset_s: i64) {
    let c = CString::new(path.as_os_str().as_bytes()).unwrap();
    let ts = [
        libc::timespec { tv_sec: SENTINEL_S + offset_s, tv_nsec: 0 },
        libc::timespec { tv_sec: SENTINEL_S + offset_s, tv_nsec: 0 },
    ];
    unsafe {
        libc::utimensat(libc::AT_FDCWD, c.as_ptr(), ts.as_ptr(), libc::AT_SYMLINK_NOFOLLOW);
    }
}

pub fn touch_sentinel(path: &Path) {
    let c = CString::new(path.as_os_str().as_bytes()).unwrap();
    let ts = [
        libc::timespec { tv_sec: SENTINEL_S, tv_nsec: 0 },
        libc::timespec { tv_sec: SENTINEL_S, tv_nsec: 0 },
    ];
    unsafe {
        libc::utimensat(libc::AT_FDCWD, c.as_ptr(), ts.as_ptr(), libc::AT_SYMLINK_NOFOLLOW);
    }
}

/// Paths whose existence, kind/bytes, inode or mtime differ between two snapshots.
/// Directories are compared by existence only (their mtime changes when children change).
pub fn changed_paths(before: &Snapshot, after: &Snapshot) -> Vec<(String, &'static str)> {
    let mut out = vec![];
    for (k, b) in before {
        match after.get(k) {
            None => out.push((k.clone(), "deleted")),
            Some(a) => {
                if a.node != b.node {
                    out.push((k.clone(), "content"));
                } else if b.node != Node::Dir && (a.ino != b.ino || a.mtime_ns != b.mtime_ns) {
                    out.push((k.clone(), "rewritten"));
                }
            }
        }
    }
    for k in after.keys() {
        if !before.contains_key(k) {
            out.push((k.clone(), "created"));
        }
    }
    out.sort();
    out
}

// ---------------------------------------------------------------- encoding helpers

pub fn b64(bytes: &[u8]) -> String {
    const T: &[u8; 64] = b"ABCDEFGHIJKLMNOPQRSTUVWXYZabcdefghijklmnopqrstuvwxyz0123456789+/";
    let mut s = String::new();
    for c in bytes.chunks(3) {
        let n = (c[0] as u32) << 16 | (*c.get(1).unwrap_or(&0) as u32) << 8 | *c.get(2).unwrap_or(&0) as u32;
        s.push(T[(n >> 18) as usize & 63] as char);
        s.push(T[(n >> 12) as usize & 63] as char);
        s.push(if c.len() > 1 { T[(n >> 6) as usize & 63] as char } else { '=' });
        s.push(if c.len() > 2 { T[n as usize & 63] as char } else { '=' });
    }
    s
}

pub fn unb64(s: &str) -> Vec<u8> {
    let mut out = vec![];
    let mut buf = 0u32;
    let mut bits = 0;
    for ch in s.bytes() {
        let v = match ch {
            b'A'..=b'Z' => ch - b'A',
            b'a'..=b'z' => ch - b'a' + 26,
            b'0'..=b'9' => ch - b'0' + 52,
            b'+' => 62,
            b'/' => 63,
            _ => continue,
        } as u32;
        buf = buf << 6 | v;
        bits += 6;
        if bits >= 8 {
            bits -= 8;
            out.push((buf >> bits) as u8);
            buf &= (1 << bits) - 1;
        }
    }
    out
}

/// Human-readable rendering of bytes for samples and messages
pub fn show(bytes: &[u8]) -> String {
    let mut s = String::new();
    for &b in bytes {
        match b {
            b'\n' => s.push_str("\\n"),
            b'\r' => s.push_str("\\r"),
            b'\t' => s.push_str("\\t"),
            b'\\' => s.push_str("\\\\"),
            0x20..=0x7e => s.push(b as char),
            _ => s.push_str(&format!("\\x{b:02x}")),
        }
    }
    s
}

pub fn tree_json(t: &Tree) -> Value {
    let mut m = serde_json::Map::new();
    for (k, v) in t {
        let j = match v {
            Node::File(b) => json!({"file_b64": b64(b), "text": show(b)}),
            Node::Dir => json!({"dir": true}),
            Node::Link(l) => json!({"link": l}),
        };
        m.insert(k.clone(), j);
    }
    Value::Object(m)
}

pub fn tree_from_json(v: &Value) -> Tree {
    let mut t = Tree::new();
    if let Some(m) = v.as_object() {
        for (k, e) in m {
            if let Some(b) = e.get("file_b64").and_then(|x| x.as_str()) {
                t.insert(k.clone(), Node::File(unb64(b)));
            } else if let Some(l) = e.get("link").and_then(|x| x.as_str()) {
                t.insert(k.clone(), Node::Link(l.to_string()));
            } else {
                t.insert(k.clone(), Node::Dir);
            }
        }
    }
    t
}

pub fn fnv(bytes: &[u8]) -> u64 {
    let mut h = 0xcbf29ce484222325u64;
    for &b in bytes {
        h ^= b as u64;
        h = h.wrapping_mul(0x100000001b3);
    }
    h
}

// ---------------------------------------------------------------- violations, findings, evidence

#[derive(Clone, Debug)]
pub struct Violation {
    pub property: String,
    /// structural signature used to match known findings
    pub signature: String,
    pub message: String,
    /// self-contained replay description
    pub replay: Value,
}

pub struct KnownFindings {
    pub known: Vec<(String, String, String)>, // property, signature, what
}

impl KnownFindings {
    pub fn load() -> Self {
        let p = verif_root().join("known_findings.json");
        let mut known = vec![];
        if let Ok(s) = std::fs::read_to_string(&p) {
            if let Ok(v) = serde_json::from_str::<Value>(&s) {
                for e in v.get("known").and_then(|x| x.as_array()).cloned().unwrap_or_default() {
                    known.push((
                        e["property"].as_str().unwrap_or("").to_string(),
                        e["signature"].as_str().unwrap_or("").to_string(),
                        e["what"].as_str().unwrap_or("").to_string(),
                    ));
                }
            }
        }
        KnownFindings { known }
    }
    pub fn matches(&self, v: &Violation) -> Option<&(String, String, String)> {
        self.known.iter().find(|(p, s, _)| *p == v.property && *s == v.signature)
    }
}

pub fn tier_is_thorough(tier: &str) -> bool {
    tier == "thorough"
}

pub fn seed() -> i64 {
    std::env::var("VERIF_SEED").ok().and_then(|s| s.parse().ok()).unwrap_or(0)
}

/// Collects what a check did and turns it into evidence + exit code
pub struct Report {
    pub property: String,
    pub tier: String,
    pub start: Instant,
    pub violations: Mutex<Vec<Violation>>,
    pub coverage: Mutex<serde_json::Map<String, Value>>,
    pub assumptions: Mutex<Vec<String>>,
    pub samples: Mutex<Vec<Value>>,
    pub capped: Mutex<Option<String>>,
    pub machinery_errors: Mutex<Vec<String>>,
    pub states: AtomicUsize,
    pub transitions: AtomicUsize,
    pub traces: AtomicUsize,
}

impl Report {
    pub fn new(property: &str, tier: &str) -> Self {
        Report {
            property: property.to_string(),
            tier: tier.to_string(),
            start: Instant::now(),
            violations: Mutex::new(vec![]),
            coverage: Mutex::new(serde_json::Map::new()),
            assumptions: Mutex::new(vec![]),
            samples: Mutex::new(vec![]),
            capped: Mutex::new(None),
            machinery_errors: Mutex::new(vec![]),
            states: AtomicUsize::new(0),
            transitions: AtomicUsize::new(0),
            traces: AtomicUsize::new(0),
        }
    }
    pub fn thorough(&self) -> bool {
        self.tier == "thorough"
    }
    pub fn cap_s(&self) -> f64 {
        let d = if self.thorough() { 1500.0 } else { 50.0 };
        std::env::var("VERIF_CAP_S").ok().and_then(|s| s.parse().ok()).unwrap_or(d)
    }
    pub fn over_cap(&self) -> bool {
        self.start.elapsed().as_secs_f64() > self.cap_s() || crate::ctl::STUCK_RUNS.load(Ordering::Relaxed) > 0
    }
    pub fn note_cap(&self, what: &str) {
        let mut c = self.capped.lock().unwrap();
        if c.is_none() {
            *c = Some(what.to_string());
        }
    }
    pub fn violate(&self, signature: &str, message: String, replay: Value) {
        let mut v = self.violations.lock().unwrap();
        // keep at most a few per signature: the first (shortest) ones
        if v.iter().filter(|x| x.signature == signature).count() >= 3 {
            return;
        }
        v.push(Violation { property: self.property.clone(), signature: signature.to_string(), message, replay });
    }
    pub fn n_violations(&self) -> usize {
        self.violations.lock().unwrap().len()
    }
    pub fn machinery(&self, msg: String) {
        self.machinery_errors.lock().unwrap().push(msg);
    }
    pub fn set(&self, key: &str, v: Value) {
        self.coverage.lock().unwrap().insert(key.to_string(), v);
    }
    pub fn add(&self, key: &str, n: u64) {
        let mut c = self.coverage.lock().unwrap();
        let cur = c.get(key).and_then(|x| x.as_u64()).unwrap_or(0);
        c.insert(key.to_string(), json!(cur + n));
    }
    pub fn add_in(&self, obj: &str, key: &str, n: u64) {
        let mut c = self.coverage.lock().unwrap();
        let e = c.entry(obj.to_string()).or_insert_with(|| json!({}));
        if let Some(m) = e.as_object_mut() {
            let cur = m.get(key).and_then(|x| x.as_u64()).unwrap_or(0);
            m.insert(key.to_string(), json!(cur + n));
        }
    }
    pub fn max(&self, key: &str, n: u64) {
        let mut c = self.coverage.lock().unwrap();
        let cur = c.get(key).and_then(|x| x.as_u64()).unwrap_or(0);
        c.insert(key.to_string(), json!(cur.max(n)));
    }
    pub fn get(&self, key: &str) -> u64 {
        self.coverage.lock().unwrap().get(key).and_then(|x| x.as_u64()).unwrap_or(0)
    }
    pub fn assume(&self, s: &str) {
        let mut a = self.assumptions.lock().unwrap();
        if !a.iter().any(|x| x == s) {
            a.push(s.to_string());
        }
    }
    pub fn sample(&self, v: Value) {
        let mut s = self.samples.lock().unwrap();
        if s.len() < 6 {
            s.push(v);
        }
    }
    pub fn st(&self, n: usize) {
        self.states.fetch_add(n, Ordering::Relaxed);
    }
    pub fn tr(&self, n: usize) {
        self.transitions.fetch_add(n, Ordering::Relaxed);
    }
    pub fn tv(&self, n: usize) {
        self.traces.fetch_add(n, Ordering::Relaxed);
    }

    /// Serialise what a worker process collected
    pub fn to_partial(&self) -> Value {
        json!({
            "violations": self.violations.lock().unwrap().iter().map(|v| json!({
                "signature": v.signature, "message": v.message, "replay": v.replay})).collect::<Vec<_>>(),
            "coverage": Value::Object(self.coverage.lock().unwrap().clone()),
            "assumptions": self.assumptions.lock().unwrap().clone(),
            "samples": self.samples.lock().unwrap().clone(),
            "capped": self.capped.lock().unwrap().clone(),
            "machinery": self.machinery_errors.lock().unwrap().clone(),
            "states": self.states.load(Ordering::Relaxed),
            "transitions": self.transitions.load(Ordering::Relaxed),
            "traces": self.traces.load(Ordering::Relaxed),
        })
    }

    pub fn merge_partial(&self, p: &Value) {
        for v in p["violations"].as_array().cloned().unwrap_or_default() {
            self.violate(v["signature"].as_str().unwrap_or(""), v["message"].as_str().unwrap_or("").to_string(), v["replay"].clone());
        }
        if let Some(m) = p["coverage"].as_object() {
            let mut c = self.coverage.lock().unwrap();
            for (k, v) in m {
                let merged = match c.get(k) {
                    None => v.clone(),
                    Some(old) => merge_value(k, old, v),
                };
                c.insert(k.clone(), merged);
            }
        }
        for a in p["assumptions"].as_array().cloned().unwrap_or_default() {
            self.assume(a.as_str().unwrap_or(""));
        }
        for s in p["samples"].as_array().cloned().unwrap_or_default() {
            self.sample(s);
        }
        if let Some(c) = p["capped"].as_str() {
            self.note_cap(c);
        }
        for m in p["machinery"].as_array().cloned().unwrap_or_default() {
            self.machinery(m.as_str().unwrap_or("").to_string());
        }
        self.st(p["states"].as_u64().unwrap_or(0) as usize);
        self.tr(p["transitions"].as_u64().unwrap_or(0) as usize);
        self.tv(p["traces"].as_u64().unwrap_or(0) as usize);
    }

    /// Writes evidence, prints verdict lines, returns the process exit code
    pub fn finish(&self) -> i32 {
        let known = KnownFindings::load();
        let viols = self.violations.lock().unwrap().clone();
        let mut new_viols = vec![];
        let mut known_hit: BTreeMap<String, (String, usize)> = BTreeMap::new();
        for v in &viols {
            match known.matches(v) {
                Some((_, sig, what)) => {
                    let e = known_hit.entry(sig.clone()).or_insert((what.clone(), 0));
                    e.1 += 1;
                }
                None => new_viols.push(v.clone()),
            }
        }
        new_viols.sort_by_key(|v| v.replay.to_string().len());
        new_viols.truncate(8);
        // every violation is re-executed once from its replay description before it is believed
        if let Some(rp) = REPLAYER.get() {
            let mut kept = vec![];
            for v in new_viols {
                let again = std::panic::catch_unwind(|| rp(&v.property, &v.replay)).unwrap_or(true);
                if again {
                    kept.push(v);
                } else {
                    self.machinery(format!("a violation did not reproduce when re-executed and was dropped: [{}] {}", v.signature, v.message));
                }
            }
            new_viols = kept;
        }
        let mach = self.machinery_errors.lock().unwrap().clone();
        let capped = self.capped.lock().unwrap().clone();
        let mut cov = self.coverage.lock().unwrap().clone();
        cov.insert("states".into(), json!(self.states.load(Ordering::Relaxed)));
        cov.insert("transitions".into(), json!(self.transitions.load(Ordering::Relaxed)));
        cov.insert("traces_validated_against_impl".into(), json!(self.traces.load(Ordering::Relaxed)));
        cov.insert("samples".into(), Value::Array(self.samples.lock().unwrap().clone()));
        cov.insert("exhaustive".into(), json!(capped.is_none()));
        if let Some(c) = &capped {
            cov.insert("cap_hit".into(), json!(c));
        }
        cov.insert(
            "known_findings_reproduced".into(),
            json!(known_hit.iter().map(|(s, (w, n))| json!({"signature": s, "what": w, "cases": n})).collect::<Vec<_>>()),
        );
        // replays
        let mut replay_paths = vec![];
        for v in &new_viols {
            let dir = verif_root().join("replays").join(&self.property);
            let _ = std::fs::create_dir_all(&dir);
            let body = json!({
                "property": v.property, "signature": v.signature, "message": v.message, "replay": v.replay,
            });
            let text = serde_json::to_string_pretty(&body).unwrap();
            let path = dir.join(format!("{:016x}.json", fnv(text.as_bytes())));
            let _ = std::fs::write(&path, text);
            replay_paths.push(path);
        }
        let ev = json!({
            "property_id": self.property,
            "tier": self.tier,
            "seed": seed(),
            "level": "model_checking",
            "coverage": Value::Object(cov),
            "assumptions": self.assumptions.lock().unwrap().clone(),
            "wall_s": (self.start.elapsed().as_secs_f64() * 1000.0).round() / 1000.0,
            "violations": new_viols.len(),
            "machinery_errors": mach,
        });
        let evdir = verif_root().join("evidence");
        let _ = std::fs::create_dir_all(&evdir);
        let evp = evdir.join(format!("{}.json", self.property));
        std::fs::write(&evp, serde_json::to_string_pretty(&ev).unwrap() + "\n").expect("write evidence");

        for (sig, (what, n)) in &known_hit {
            println!("KNOWN-FINDING: property={} {} [{}; {} case(s) this run]", self.property, what, sig, n);
        }
        println!(
            "{} {}: states={} transitions={} traces_validated={} exhaustive={} wall={:.1}s",
            self.property,
            self.tier,
            self.states.load(Ordering::Relaxed),
            self.transitions.load(Ordering::Relaxed),
            self.traces.load(Ordering::Relaxed),
            capped.is_none(),
            self.start.elapsed().as_secs_f64()
        );
        if !new_viols.is_empty() {
            for m in &mach {
                eprintln!("MACHINERY-ERROR (besides the violations): {m}");
            }
            for (v, p) in new_viols.iter().zip(&replay_paths) {
                println!("  [{}] {}", v.signature, v.message);
                println!("VIOLATION property={} replay={}", self.property, p.display());
            }
            return 1;
        }
        if !mach.is_empty() {
            for m in &mach {
                eprintln!("MACHINERY-ERROR: {m}");
            }
            return 2;
        }
        if self.states.load(Ordering::Relaxed) == 0 || self.transitions.load(Ordering::Relaxed) == 0 {
            eprintln!("MACHINERY-ERROR: nothing explored");
            return 2;
        }
        0
    }
}

fn merge_value(key: &str, a: &Value, b: &Value) -> Value {
    match (a, b) {
        (Value::Number(x), Value::Number(y)) => {
            let (x, y) = (x.as_u64().unwrap_or(0), y.as_u64().unwrap_or(0));
            if key.starts_with("max_") {
                json!(x.max(y))
            } else {
                json!(x + y)
            }
        }
        (Value::Array(x), Value::Array(y)) => {
            let mut v = x.clone();
            for e in y {
                if (key.starts_with("set_") || v.len() < 24) && !v.contains(e) {
                    v.push(e.clone());
                }
            }
            Value::Array(v)
        }
        (Value::Object(x), Value::Object(y)) => {
            let mut m = x.clone();
            for (k, v) in y {
                let nv = match m.get(k) {
                    None => v.clone(),
                    Some(o) => merge_value(k, o, v),
                };
                m.insert(k.clone(), nv);
            }
            Value::Object(m)
        }
        _ => a.clone(),
    }
}

/// Run `f(shard, nshards, report)` in `n` forked worker processes and merge their reports into `rep`.
/// The calling process must be single-threaded. Per-run thread pools do not scale inside one process
/// (thread stacks serialise on the address-space lock), separate processes do.
pub fn sharded<F: Fn(usize, usize, &Report)>(rep: &Report, n: usize, f: F) {
    sharded_dyn(rep, n, |k, n, _next, r| f(k, n, r))
}

/// Like `sharded`, but workers can also pull work items dynamically: `next()` returns 0, 1, 2, ... each
/// value exactly once across all workers (a counter in shared memory), which balances uneven items.
pub fn sharded_dyn<F: Fn(usize, usize, &dyn Fn() -> usize, &Report)>(rep: &Report, n: usize, f: F) {
    use std::io::Write;
    let counter: &AtomicU64 = unsafe {
        let p = libc::mmap(
            std::ptr::null_mut(),
            4096,
            libc::PROT_READ | libc::PROT_WRITE,
            libc::MAP_SHARED | libc::MAP_ANONYMOUS,
            -1,
            0,
        );
        assert!(p != libc::MAP_FAILED, "mmap shared counter");
        &*(p as *const AtomicU64)
    };
    counter.store(0, Ordering::SeqCst);
    let next = || counter.fetch_add(1, Ordering::SeqCst) as usize;
    let _ = std::io::stdout().flush();
    let dir = scratch_root().join("partials");
    let _ = std::fs::create_dir_all(&dir);
    let mut pids = vec![];
    for k in 0..n {
        let pid = unsafe { libc::fork() };
        if pid < 0 {
            rep.machinery("fork failed".into());
            break;
        }
        if pid == 0 {
            let child = Report::new(&rep.property, &rep.tier);
            let child = Report { start: rep.start, ..child };
            crate::ctl::start_watchdog(std::time::Duration::from_secs(60));
            let r = std::panic::catch_unwind(std::panic::AssertUnwindSafe(|| f(k, n, &next, &child)));
            if let Err(e) = r {
                let m = e.downcast_ref::<String>().cloned().or_else(|| e.downcast_ref::<&str>().map(|s| s.to_string())).unwrap_or_default();
                child.machinery(format!("worker {k} panicked in the harness: {m}"));
            }
            let text = serde_json::to_string(&child.to_partial()).unwrap();
            let _ = std::fs::write(dir.join(format!("{k}.json")), text);
            cleanup_scratch_root();
            if std::env::var("VERIF_COVERAGE").is_ok() {
                // coverage builds write their profile from an exit handler
                std::process::exit(0);
            }
            unsafe { libc::_exit(0) };
        }
        pids.push((k, pid));
    }
    for (k, pid) in pids {
        let mut status = 0;
        unsafe { libc::waitpid(pid, &mut status, 0) };
        let path = dir.join(format!("{k}.json"));
        match std::fs::read_to_string(&path).ok().and_then(|t| serde_json::from_str::<Value>(&t).ok()) {
            Some(v) => rep.merge_partial(&v),
            None => rep.machinery(format!("worker {k} ended without a report (wait status {status})")),
        }
        let _ = std::fs::remove_file(&path);
    }
}

// ---------------------------------------------------------------- misc

pub fn par_threads() -> usize {
    std::env::var("VERIF_THREADS").ok().and_then(|s| s.parse().ok()).unwrap_or(16)
}

pub fn production_cli() -> PathBuf {
    match std::env::var("VERIF_CLI") {
        Ok(p) => PathBuf::from(p),
        Err(_) => PathBuf::from("/verif/target/cli/release/txtpp"),
    }
}

/// Run the production CLI (built without the `verif` feature) in `cwd`. Returns (exit code or -signal, timed out)
pub fn run_cli(cwd: &Path, args: &[&str], env: &[(&str, &str)], timeout_s: f64) -> (i32, bool) {
    let env: Vec<(&str, &std::ffi::OsStr)> = env.iter().map(|(k, v)| (*k, std::ffi::OsStr::new(v))).collect();
    run_cli_os(cwd, args, &env, timeout_s)
}

/// like run_cli, with environment values that need not be UTF-8
pub fn run_cli_os(cwd: &Path, args: &[&str], env: &[(&str, &std::ffi::OsStr)], timeout_s: f64) -> (i32, bool) {
    use std::os::unix::process::ExitStatusExt;
    let mut c = std::process::Command::new(production_cli());
    c.current_dir(cwd)
        .args(args)
        .env_remove("TXTPP_FILE")
        .env_remove("RUST_LOG")
        .stdin(std::process::Stdio::null())
        .stdout(std::process::Stdio::null())
        .stderr(std::process::Stdio::null());
    for (k, v) in env {
        c.env(k, v);
    }
    match status_with_timeout(&mut c, timeout_s) {
        (Some(st), _) => (st.code().unwrap_or_else(|| -st.signal().unwrap_or(0)), false),
        (None, true) => (-9, true),
        (None, false) => (-1, false),
    }
}

/// Run a command in its own process group; kill the whole group after `timeout_s`. Returns (status, timed out)
pub fn status_with_timeout(cmd: &mut std::process::Command, timeout_s: f64) -> (Option<std::process::ExitStatus>, bool) {
    use std::os::unix::process::CommandExt;
    cmd.process_group(0);
    let mut child = match cmd.spawn() {
        Ok(c) => c,
        Err(_) => return (None, false),
    };
    let t0 = Instant::now();
    loop {
        match child.try_wait() {
            Ok(Some(st)) => return (Some(st), false),
            Ok(None) => {
                if t0.elapsed().as_secs_f64() > timeout_s {
                    unsafe {
                        libc::kill(-(child.id() as i32), libc::SIGKILL);
                    }
                    let _ = child.kill();
                    let _ = child.wait();
                    return (None, true);
                }
                std::thread::sleep(std::time::Duration::from_millis(5));
            }
            Err(_) => return (None, false),
        }
    }
}

/// like `Command::output`, with a timeout (stdout only)
pub fn output_with_timeout(cmd: &mut std::process::Command, timeout_s: f64) -> (Option<std::process::ExitStatus>, Vec<u8>, bool) {
    let path = scratch_root().join(format!("out-{}-{}", std::process::id(), SCRATCH_N.fetch_add(1, Ordering::Relaxed)));
    let f = std::fs::File::create(&path).expect("capture file");
    cmd.stdout(f).stderr(std::process::Stdio::null());
    let (st, to) = status_with_timeout(cmd, timeout_s);
    let out = std::fs::read(&path).unwrap_or_default();
    let _ = std::fs::remove_file(&path);
    (st, out, to)
}
