//! Engine E-lines: bounded-exhaustive sources over a line alphabet, each run through the real
//! `preprocess` and compared with the reference model M. Serves C01, C12, C13, C16.
#![allow(dead_code)]

use crate::model::*;
use crate::util::*;
use serde_json::json;
use std::collections::BTreeSet;
use std::panic::{catch_unwind, AssertUnwindSafe};
use std::path::PathBuf;
use txtpp::verif::api::{preprocess, AbsPath, PpResult, Shell};
use txtpp::Mode;

pub const SIGMA_CORE: [&str; 20] = [
    "x",
    "x ",
    "",
    "  y",
    "a T b",
    "-TXTPP#include nl.txt",
    "-TXTPP#include nonl.txt",
    "-TXTPP#include empty.txt",
    "  -TXTPP#include gap.txt",
    "TXTPP#include missing.txt",
    "-TXTPP#write w",
    "  -TXTPP#write w",
    "-TXTPP#",
    "+TXTPP#",
    "-TXTPP#temp t.out",
    "-TXTPP#tag T",
    "-c",
    "-",
    " s",
    "  -c",
];

pub const SIGMA_RUN: [&str; 4] = ["-TXTPP#run printf r", "-TXTPP#run printf 'r\\n'", "-TXTPP#run exit 3", "TXTPP#run true"];

/// second alphabet for C01: decision points the core alphabet does not reach (tab indentation, prefixes
/// with blanks and non-ASCII characters, `after`, temp targets in sub-directories, CRLF/mixed included files,
/// whitespace-only lines, prefix-related tag names, an empty directive with arguments)
pub const SIGMA_EXT: [&str; 24] = [
    "\tz",
    "-TXTPP#include sub/t2.out",
    "-TXTPP#temp a.txtpp.b",
    "-",
    "x",
    "",
    "  ",
    "\t// TXTPP#include nl.txt",
    "\t// TXTPP#write w ",
    "\t//",
    "\t// v",
    "\u{e9} TXTPP#write \u{fc}",
    "\u{e9} y",
    "TXTPP#after nl.txt",
    "-TXTPP#temp sub/t2.out",
    "-TXTPP#include crlf.txt",
    "-TXTPP#include mixed.txt",
    "-TXTPP#tag TU",
    "-TXTPP#tag T",
    "TU T TU",
    "-TXTPP# ignored",
    "-more",
    "+TXTPP#include nonl.txt",
    "-TXTPP#run cat nonl.txt",
];

pub fn helpers_ext() -> Tree {
    let mut t = helpers();
    tfile(&mut t, "crlf.txt", "p\r\nq\r\n");
    tfile(&mut t, "mixed.txt", "p\nq\r\nr");
    tfile(&mut t, "sub/keep", "k");
    t
}

pub fn helpers() -> Tree {
    let mut t = Tree::new();
    tfile(&mut t, "nl.txt", "p\nq\n");
    tfile(&mut t, "nonl.txt", "p\nq");
    tfile(&mut t, "empty.txt", "");
    tfile(&mut t, "gap.txt", "p\n\nq\n");
    t
}

pub const SRC: &str = "s.txt.txtpp";
pub const OUT: &str = "s.txt";
pub const TMP: &str = "t.out";

#[derive(Clone, Debug, PartialEq, Eq)]
pub enum V {
    Ok,
    Err(String),
    Panic(String),
    HasDeps,
}

impl V {
    pub fn kind(&self) -> &'static str {
        match self {
            V::Ok => "Ok",
            V::Err(_) => "Err",
            V::Panic(_) => "Panic",
            V::HasDeps => "HasDeps",
        }
    }
}

#[derive(Clone, Debug)]
pub struct ImplRes {
    pub v: V,
    pub out: Option<Vec<u8>>,
    pub tmp: Option<Vec<u8>>,
}

/// One worker's private directory with the helper files and the (rewritten) source
pub struct Bench {
    pub scratch: Scratch,
    pub base: PathBuf,
    pub shell: Shell,
    pub src: AbsPath,
    pub helpers: Tree,
    /// reference execution of menu commands: `sh -c <text>` in the source's directory, memoised
    /// (commands of the menu are deterministic: DESIGN 4.3/D3)
    pub cmd_cache: std::cell::RefCell<std::collections::HashMap<String, Result<String, String>>>,
}

impl Bench {
    pub fn new(helpers: &Tree) -> Bench {
        let scratch = Scratch::new();
        let base = scratch.p("p");
        std::fs::create_dir_all(&base).unwrap();
        write_tree(&base, helpers);
        std::fs::write(base.join(SRC), b"").unwrap();
        let shell = Shell::new("").expect("default shell");
        let b = AbsPath::create_base(base.clone()).expect("base");
        let src = b.try_resolve(&SRC, false).expect("source path");
        Bench { scratch, base, shell, src, helpers: helpers.clone(), cmd_cache: Default::default() }
    }

    pub fn reset(&self, src: &[u8], pre_out: Option<&[u8]>, pre_tmp: Option<&[u8]>) {
        std::fs::write(self.base.join(SRC), src).unwrap();
        match pre_out {
            None => {
                let _ = std::fs::remove_file(self.base.join(OUT));
            }
            Some(b) => std::fs::write(self.base.join(OUT), b).unwrap(),
        }
        match pre_tmp {
            None => {
                let _ = std::fs::remove_file(self.base.join(TMP));
            }
            Some(b) => std::fs::write(self.base.join(TMP), b).unwrap(),
        }
    }

    /// the production path of one source without dependencies: one call of `preprocess`
    pub fn run(&self, src: &[u8], mode: Mode, first_pass: bool, tn: bool) -> ImplRes {
        self.reset(src, None, None);
        self.run_no_reset(mode, first_pass, tn)
    }

    pub fn run_no_reset(&self, mode: Mode, first_pass: bool, tn: bool) -> ImplRes {
        let r = catch_unwind(AssertUnwindSafe(|| preprocess(&self.shell, &self.src, mode, first_pass, tn)));
        let v = match r {
            Ok(Ok(PpResult::Ok(_))) => V::Ok,
            Ok(Ok(PpResult::HasDeps(..))) => V::HasDeps,
            Ok(Err(e)) => V::Err(format!("{e:?}")),
            Err(p) => V::Panic(
                p.downcast_ref::<String>().cloned().or_else(|| p.downcast_ref::<&str>().map(|s| s.to_string())).unwrap_or_default(),
            ),
        };
        ImplRes { v, out: std::fs::read(self.base.join(OUT)).ok(), tmp: std::fs::read(self.base.join(TMP)).ok() }
    }

    pub fn model(&self, src: &[u8], tn: bool) -> Result<MFile, String> {
        let mut t = self.helpers.clone();
        tfile(&mut t, SRC, src);
        let mt = MTree::from_tree(&t);
        let cmd = |c: &str, _dir: &str, _lookup: &dyn Fn(&str) -> Option<Vec<u8>>| self.ref_exec(c);
        let mut m = Model::new(&mt, tn, &cmd);
        m.eval(SRC)
    }

    pub fn ref_exec(&self, c: &str) -> Result<String, String> {
        if let Some(r) = self.cmd_cache.borrow().get(c) {
            return r.clone();
        }
        let o = std::process::Command::new("/bin/sh")
            .arg("-c")
            .arg(c)
            .current_dir(&self.base)
            .env("TXTPP_FILE", SRC)
            .stdin(std::process::Stdio::null())
            .output()
            .expect("reference shell");
        let r = if o.status.success() { Ok(String::from_utf8_lossy(&o.stdout).to_string()) } else { Err(format!("status {:?}", o.status.code())) };
        self.cmd_cache.borrow_mut().insert(c.to_string(), r.clone());
        r
    }

    pub fn extra_files(&self) -> Vec<String> {
        let mut v = vec![];
        if let Ok(rd) = std::fs::read_dir(&self.base) {
            for e in rd.flatten() {
                let n = e.file_name().to_string_lossy().to_string();
                if n != SRC && n != OUT && n != TMP && !self.helpers.contains_key(&n) {
                    v.push(n);
                }
            }
        }
        v
    }
}

pub fn build_source(lines: &[&str], crlf: bool, final_nl: bool) -> Vec<u8> {
    let le = if crlf { "\r\n" } else { "\n" };
    let mut s = lines.join(le);
    if final_nl && !lines.is_empty() {
        s.push_str(le);
    }
    s.into_bytes()
}

/// Enumerate all sequences over `alpha` symbols of length 0..=max_len; work is handed out in blocks
/// (one block per 2-symbol prefix) through `next`.
pub fn for_each_seq(alpha: usize, max_len: usize, next: &dyn Fn() -> usize, stop: &dyn Fn() -> bool, f: &mut dyn FnMut(&[usize])) {
    let nblocks = if max_len >= 2 { alpha * alpha + 1 } else { 1 };
    loop {
        let b = next();
        if b >= nblocks || stop() {
            break;
        }
        if b == nblocks - 1 {
            f(&[]);
            if max_len >= 1 {
                for a in 0..alpha {
                    f(&[a]);
                }
            }
            continue;
        }
        let mut seq = vec![b / alpha, b % alpha];
        fn rec(seq: &mut Vec<usize>, alpha: usize, max_len: usize, stop: &dyn Fn() -> bool, f: &mut dyn FnMut(&[usize])) {
            f(seq);
            if seq.len() < max_len && !stop() {
                for a in 0..alpha {
                    seq.push(a);
                    rec(seq, alpha, max_len, stop, f);
                    seq.pop();
                }
            }
        }
        rec(&mut seq, alpha, max_len, stop, f);
    }
}

pub fn count_seqs(alpha: usize, max_len: usize) -> u64 {
    (0..=max_len).map(|l| (alpha as u64).pow(l as u32)).sum()
}

fn replay_json(prop: &str, src: &[u8], tn: bool, extra: serde_json::Value) -> serde_json::Value {
    json!({"engine": "E-lines", "prop": prop, "source_b64": b64(src), "source": show(src), "trailing_newline": tn, "extra": extra})
}

/// C01 oracle on one (source, option) pair. Returns whether the case was inside the domain.
fn c01_case(rep: &Report, b: &Bench, src: &[u8], tn: bool, nlines: usize, steps: &mut BTreeSet<(u16, u8)>) -> bool {
    let m = b.model(src, tn);
    if let Err(e) = &m {
        if e.starts_with("out-of-domain") {
            rep.add("cases_outside_domain", 1);
            return false;
        }
    }
    let r = b.run(src, Mode::Build, true, tn);
    rep.tv(1);
    rep.tr(1);
    compare_c01(rep, "preprocess(first pass)", src, tn, &m, &r);
    if let Ok(mf) = &m {
        for s in &mf.steps {
            steps.insert(*s);
        }
    }
    if nlines <= 3 {
        let extra = b.extra_files();
        if !extra.is_empty() {
            rep.violate("stray-file", format!("source {:?}: files created besides output and temp target: {:?}", show(src), extra), replay_json("C01", src, tn, json!({})));
            for e in extra {
                let _ = std::fs::remove_file(b.base.join(e));
            }
        }
        // the same source as a final pass (is_first_pass = false) and in the only-if-needed mode
        let r2 = b.run(src, Mode::Build, false, tn);
        rep.tv(1);
        compare_c01(rep, "preprocess(final pass)", src, tn, &m, &r2);
        let r3 = b.run(src, Mode::InMemoryBuild, true, tn);
        rep.tv(1);
        compare_c01(rep, "preprocess(in-memory build)", src, tn, &m, &r3);
    }
    true
}

pub fn compare_c01(rep: &Report, how: &str, src: &[u8], tn: bool, m: &Result<MFile, String>, r: &ImplRes) {
    match (m, &r.v) {
        (Ok(mf), V::Ok) => {
            let out = r.out.clone().unwrap_or_default();
            if r.out.is_none() {
                rep.violate("output-missing", format!("[{how}] source {:?} tn={tn}: success but no output file", show(src)), replay_json("C01", src, tn, json!({"how": how})));
            } else if !mf.outs.iter().any(|o| *o == out) {
                rep.violate(
                    "output-differs",
                    format!("[{how}] source {:?} tn={tn}: output {:?}, semantics prescribe {:?}", show(src), show(&out), mf.outs.iter().map(|o| show(o)).collect::<Vec<_>>()),
                    replay_json("C01", src, tn, json!({"how": how})),
                );
            }
            let want_tmp = mf.temps.get(TMP);
            if want_tmp != r.tmp.as_ref() {
                rep.violate(
                    "temp-differs",
                    format!("[{how}] source {:?}: temp target {:?}, semantics prescribe {:?}", show(src), r.tmp.as_ref().map(|b| show(b)), want_tmp.map(|b| show(b))),
                    replay_json("C01", src, tn, json!({"how": how})),
                );
            }
        }
        (Err(_), V::Err(_)) => {}
        (Ok(_), V::Err(e)) => rep.violate(
            "spurious-error",
            format!("[{how}] source {:?} tn={tn}: build failed but the semantics prescribe success: {}", show(src), crate::sched::first_lines(e, 5)),
            replay_json("C01", src, tn, json!({"how": how})),
        ),
        (Err(e), V::Ok) => rep.violate(
            "missed-error",
            format!("[{how}] source {:?} tn={tn}: build succeeded (output {:?}) but the semantics prescribe an error: {e}", show(src), r.out.as_ref().map(|b| show(b))),
            replay_json("C01", src, tn, json!({"how": how})),
        ),
        (_, V::Panic(p)) => rep.violate("panic", format!("[{how}] source {:?}: panic {p}", show(src)), replay_json("C01", src, tn, json!({"how": how}))),
        (_, V::HasDeps) => rep.violate("unexpected-deps", format!("[{how}] source {:?}: reported dependencies", show(src)), replay_json("C01", src, tn, json!({"how": how}))),
    }
}

fn publish_steps(rep: &Report, steps: &BTreeSet<(u16, u8)>) {
    rep.set("set_model_steps", json!(steps.iter().map(|(s, y)| format!("{s}:{y}")).collect::<Vec<_>>()));
}

pub fn finish_steps(rep: &Report) {
    let v = rep.coverage.lock().unwrap().remove("set_model_steps");
    if let Some(serde_json::Value::Array(a)) = v {
        let states: BTreeSet<String> = a.iter().filter_map(|x| x.as_str()).map(|s| s.split(':').next().unwrap().to_string()).collect();
        rep.set("model_states_visited", json!(states.len()));
        rep.set("model_transitions_visited", json!(a.len()));
    }
}

pub fn run_c01(tier: &str) -> i32 {
    let rep = Report::new("C01", tier);
    let thorough = rep.thorough();
    let (l_core, l_run) = if thorough { (5, 4) } else { (3, 3) };
    rep.assume("input domain of DESIGN.md section 4.3; ambiguity Q1 accepts two outputs, Q4 cases are skipped and counted");
    rep.assume("the reference model M (harness/src/model.rs) transcribes the README semantics; its grammar and tag sub-functions are cross-checked against the implementation by C15/C14");
    rep.set("alphabet_core", json!(SIGMA_CORE));
    rep.set("alphabet_run", json!(SIGMA_RUN));
    rep.set("bounds", json!(format!("all sources of <= {l_core} lines over the 20-symbol core alphabet and <= {l_run} lines over core+run (24 symbols), each x {{LF,CRLF}} x {{final newline, none}} x {{trailing-newline option on, off}}")));
    let help = helpers();
    // phase 1: core alphabet
    sharded_dyn(&rep, par_threads(), |_k, _n, next, rep| {
        let b = Bench::new(&help);
        let mut steps = BTreeSet::new();
        let stop = || rep.over_cap();
        for_each_seq(SIGMA_CORE.len(), l_core, next, &stop, &mut |seq| {
            let lines: Vec<&str> = seq.iter().map(|&i| SIGMA_CORE[i]).collect();
            rep.add("sequences_core", 1);
            rep.st(1);
            for crlf in [false, true] {
                for final_nl in [true, false] {
                    if lines.is_empty() && (!final_nl || crlf) {
                        continue;
                    }
                    let src = build_source(&lines, crlf, final_nl);
                    for tn in [true, false] {
                        if c01_case(rep, &b, &src, tn, lines.len(), &mut steps) {
                            rep.add("cases_compared", 1);
                        }
                    }
                }
            }
            if seq.len() == 3 && seq[0] == 4 && seq[1] == 15 && seq[2] == 5 {
                rep.sample(json!({"source": show(&build_source(&lines, false, true))}));
            }
        });
        if rep.over_cap() {
            rep.note_cap("wall-clock cap during the core enumeration (blocks are ordered by 2-symbol prefix)");
        }
        publish_steps(rep, &steps);
    });
    // phase 2: core + run
    let mut alpha: Vec<&str> = SIGMA_CORE.to_vec();
    alpha.extend(SIGMA_RUN);
    sharded_dyn(&rep, par_threads(), |_k, _n, next, rep| {
        let b = Bench::new(&help);
        let mut steps = BTreeSet::new();
        let stop = || rep.over_cap();
        for_each_seq(alpha.len(), l_run, next, &stop, &mut |seq| {
            // sequences without a run symbol were covered by phase 1
            if !seq.iter().any(|&i| i >= SIGMA_CORE.len()) {
                return;
            }
            let lines: Vec<&str> = seq.iter().map(|&i| alpha[i]).collect();
            rep.add("sequences_with_run", 1);
            rep.st(1);
            for crlf in [false, true] {
                for final_nl in [true, false] {
                    let src = build_source(&lines, crlf, final_nl);
                    for tn in [true, false] {
                        if c01_case(rep, &b, &src, tn, 9, &mut steps) {
                            rep.add("cases_compared", 1);
                        }
                    }
                }
            }
            if seq.len() == 2 && seq[0] == 20 && seq[1] == 0 {
                rep.sample(json!({"source": show(&build_source(&lines, false, true))}));
            }
        });
        if rep.over_cap() {
            rep.note_cap("wall-clock cap during the run-alphabet enumeration");
        }
        publish_steps(rep, &steps);
    });
    // phase 3: the extension alphabet (its own helper files; a temp target in a sub-directory)
    let l_ext = if thorough { 4 } else { 3 };
    rep.set("alphabet_ext", json!(SIGMA_EXT));
    rep.set("bounds_ext", json!(format!("all sources of <= {l_ext} lines over the 24-symbol extension alphabet x LF/CRLF x final newline x option")));
    let help_ext = helpers_ext();
    sharded_dyn(&rep, par_threads(), |_k, _n, next, rep| {
        let b = Bench::new(&help_ext);
        let mut steps = BTreeSet::new();
        let stop = || rep.over_cap();
        for_each_seq(SIGMA_EXT.len(), l_ext, next, &stop, &mut |seq| {
            let lines: Vec<&str> = seq.iter().map(|&i| SIGMA_EXT[i]).collect();
            rep.add("sequences_ext", 1);
            rep.st(1);
            for crlf in [false, true] {
                for final_nl in [true, false] {
                    if lines.is_empty() {
                        continue;
                    }
                    let src = build_source(&lines, crlf, final_nl);
                    for tn in [true, false] {
                        let _ = std::fs::remove_file(b.base.join("sub/t2.out"));
                        let m = b.model(&src, tn);
                        if matches!(&m, Err(e) if e.starts_with("out-of-domain")) {
                            rep.add("cases_outside_domain", 1);
                            continue;
                        }
                        let r = b.run(&src, Mode::Build, true, tn);
                        rep.tv(1);
                        rep.tr(1);
                        rep.add("cases_compared", 1);
                        compare_c01(rep, "preprocess(ext alphabet)", &src, tn, &m, &r);
                        if let (Ok(mf), V::Ok) = (&m, &r.v) {
                            let got = std::fs::read(b.base.join("sub/t2.out")).ok();
                            if got.as_ref() != mf.temps.get("sub/t2.out") {
                                rep.violate("temp-differs", format!("source {:?}: temp target sub/t2.out is {:?}, semantics prescribe {:?}", show(&src), got.as_ref().map(|x| show(x)), mf.temps.get("sub/t2.out").map(|x| show(x))), json!({"engine": "E-lines", "prop": "C01", "source_b64": b64(&src), "source": show(&src), "trailing_newline": tn, "extra": {"ext": true}}));
                            }
                            for s in &mf.steps {
                                steps.insert(*s);
                            }
                        }
                    }
                }
            }
        });
        if rep.over_cap() {
            rep.note_cap("wall-clock cap during the extension-alphabet enumeration");
        }
        publish_steps(rep, &steps);
    });
    finish_steps(&rep);
    // the first line decides the line ending - also when it is longer than any read buffer
    {
        let lens: Vec<usize> = if thorough { vec![4095, 4096, 8189, 8190, 8191, 8192, 8193, 16384, 70000] } else { vec![8190, 8191, 8192, 8193, 70000] };
        let b = Bench::new(&help);
        for len in lens {
            for crlf in [false, true] {
                for first in ["text", "write"] {
                    let l0 = if first == "text" { "y".repeat(len) } else { format!("-TXTPP#write {}", "y".repeat(len - 13)) };
                    for rest in [vec!["x", "-TXTPP#temp t.out", "-a", "-b", "x"], vec!["-TXTPP#include nl.txt", "x"], vec!["x"]] {
                        let mut lines: Vec<&str> = vec![l0.as_str()];
                        lines.extend(rest);
                        let src = build_source(&lines, crlf, true);
                        let mut steps = BTreeSet::new();
                        if c01_case(&rep, &b, &src, true, 9, &mut steps) {
                            rep.add("long_first_line_cases", 1);
                        }
                        if let (Ok(mf), r) = (b.model(&src, true), b.run(&src, Mode::Build, true, true)) {
                            if r.v == V::Ok && r.tmp.as_ref() != mf.temps.get(TMP) {
                                rep.violate("temp-differs", format!("first line of {len} bytes ({first}, {}): temp target is {:?}, semantics prescribe {:?}", if crlf { "CRLF" } else { "LF" }, r.tmp.as_ref().map(|x| show(x)), mf.temps.get(TMP).map(|x| show(x))), replay_json("C01", &src, true, json!({})));
                            }
                        }
                    }
                }
            }
        }
    }
    // one file that changes while the source is processed: temp targets rewritten between includes / commands
    {
        const FS: [&[&str]; 6] = [
            &["+TXTPP#temp t.out", "+one"],
            &["+TXTPP#temp t.out", "+two", "+lines"],
            &["-TXTPP#include t.out"],
            &["=TXTPP#include ./t.out"],
            &["x"],
            &["+TXTPP#temp ./t.out"],
        ];
        let max = if thorough { 6 } else { 5 };
        rep.set("file_state_alphabet", json!(FS.iter().map(|x| x.join(" / ")).collect::<Vec<_>>()));
        sharded_dyn(&rep, par_threads(), |_k, _n, next, rep| {
            let b = Bench::new(&help);
            let stop = || rep.over_cap();
            let mut steps = BTreeSet::new();
            for_each_seq(FS.len(), max, next, &stop, &mut |seq| {
                if seq.is_empty() {
                    return;
                }
                let lines: Vec<&str> = seq.iter().flat_map(|&i| FS[i].iter().cloned()).collect();
                let src = build_source(&lines, false, true);
                if c01_case(rep, &b, &src, true, 9, &mut steps) {
                    rep.add("file_state_cases", 1);
                }
                if let (Ok(mf), r) = (b.model(&src, true), b.run(&src, Mode::Build, true, true)) {
                    if r.v == V::Ok && r.tmp.as_ref() != mf.temps.get(TMP) {
                        rep.violate("temp-differs", format!("source {:?}: temp target is {:?}, semantics prescribe {:?}", show(&src), r.tmp.as_ref().map(|x| show(x)), mf.temps.get(TMP).map(|x| show(x))), replay_json("C01", &src, true, json!({})));
                    }
                }
            });
        });
    }
    // two tags pending at the same time: names that are equal / prefix-related (an error) or merely contain one another (fine)
    {
        let names = ["T", "TU", "UT", "XTX", "ID", "WIDTH", "U"];
        let b = Bench::new(&help);
        let mut steps = BTreeSet::new();
        for a in names {
            for c in names {
                for uses in [format!("{a}-{c}"), format!("{c} {a}"), format!("{a}\n{c}"), format!("x{a}{c}x")] {
                    let text = format!("-TXTPP#tag {a}\n+TXTPP#write va\n-TXTPP#tag {c}\n+TXTPP#write vc\n{uses}\nend\n");
                    for crlf in [false, true] {
                        let src = if crlf { text.replace('\n', "\r\n").into_bytes() } else { text.clone().into_bytes() };
                        if c01_case(&rep, &b, &src, true, 9, &mut steps) {
                            rep.add("tag_pair_cases", 1);
                        }
                    }
                }
            }
        }
    }
    crate::eproj::run_into(&rep);
    rep.finish()
}

/// Re-run one E-lines replay. True if it still fails.
pub fn replay(v: &serde_json::Value) -> bool {
    let src = unb64(v["source_b64"].as_str().unwrap_or(""));
    let tn = v["trailing_newline"].as_bool().unwrap_or(true);
    let b = Bench::new(&if v["extra"]["ext"].as_bool() == Some(true) || v["extra"]["how"].as_str() == Some("preprocess(ext alphabet)") { helpers_ext() } else { helpers() });
    let rep = Report::new("C01", "quick");
    let m = b.model(&src, tn);
    for (how, mode, fp) in [("first pass", Mode::Build, true), ("final pass", Mode::Build, false), ("in-memory", Mode::InMemoryBuild, true)] {
        let r = b.run(&src, mode, fp, tn);
        println!("replay [{how}] source {:?} tn={tn}", show(&src));
        println!("  impl : {} out={:?} tmp={:?}", r.v.kind(), r.out.as_ref().map(|b| show(b)), r.tmp.as_ref().map(|b| show(b)));
        match &m {
            Ok(mf) => println!("  model: Ok out={:?} tmp={:?}", mf.outs.iter().map(|o| show(o)).collect::<Vec<_>>(), mf.temps.get(TMP).map(|b| show(b))),
            Err(e) => println!("  model: Err {e}"),
        }
        compare_c01(&rep, how, &src, tn, &m, &r);
    }
    rep.n_violations() > 0
}
