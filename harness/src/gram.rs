//! Engine U-gram (C15): every line over a token alphabet through the real `Directive::detect_from`,
//! every (directive, continuation) pair through the real `add_line`, against the reference grammar;
//! plus an end-to-end pass through whole-file `preprocess`.
#![allow(dead_code)]

use crate::elines::*;
use crate::model::*;
use crate::util::*;
use serde_json::json;
use std::collections::BTreeSet;
use txtpp::verif::api::{Directive, DirectiveType};
use txtpp::Mode;

pub const TOK: [&str; 20] =
    ["\u{3000}", "\u{b}", " ", "\t", "-", "//", "TXTPP#", "TXTPP", "#", "include", "after", "run", "temp", "tag", "write", "writex", "x", "\u{e9}", "RUN", "txtpp#"];
pub const CTOK: [&str; 9] = ["\u{3000}", " ", "\t", "-", "//", "x", "\u{e9}", "TXTPP#", "// "];

fn std_cmd_or_fail(c: &str, _d: &str, _l: &dyn Fn(&str) -> Option<Vec<u8>>) -> Result<String, String> {
    let o = std::process::Command::new("/bin/sh").arg("-c").arg(c).stdin(std::process::Stdio::null()).output().map_err(|e| e.to_string())?;
    if o.status.success() {
        Ok(String::from_utf8_lossy(&o.stdout).to_string())
    } else {
        Err("status".into())
    }
}

fn kind_of(t: &DirectiveType) -> Kind {
    match t {
        DirectiveType::Empty => Kind::Empty,
        DirectiveType::Include => Kind::Include,
        DirectiveType::After => Kind::After,
        DirectiveType::Run => Kind::Run,
        DirectiveType::Tag => Kind::Tag,
        DirectiveType::Temp => Kind::Temp,
        DirectiveType::Write => Kind::Write,
    }
}

fn all_lines(tokens: &[&str], max_tok: usize) -> Vec<String> {
    let mut set: BTreeSet<String> = BTreeSet::new();
    let mut cur = vec![String::new()];
    set.insert(String::new());
    for _ in 0..max_tok {
        let mut nxt = BTreeSet::new();
        for c in &cur {
            for t in tokens {
                nxt.insert(format!("{c}{t}"));
            }
        }
        cur = nxt.iter().cloned().collect();
        set.extend(nxt);
    }
    set.into_iter().collect()
}

fn rj(line: &str, cont: Option<&str>) -> serde_json::Value {
    json!({"engine": "U-gram", "line": line, "continuation": cont})
}

/// compare the real classifier with the reference on one line; returns the reference head
fn check_line(rep: &Report, line: &str) -> Option<Head> {
    let want = classify(line);
    let got = std::panic::catch_unwind(|| Directive::detect_from(line));
    let got = match got {
        Ok(g) => g,
        Err(_) => {
            rep.violate("panic", format!("detect_from({line:?}) panicked"), rj(line, None));
            return want;
        }
    };
    let same = match (&want, &got) {
        (None, None) => true,
        (Some(w), Some(g)) => w.ws == g.whitespaces && w.prefix == g.prefix && w.kind == kind_of(&g.directive_type) && g.args.len() == 1 && g.args[0] == w.arg,
        _ => false,
    };
    if !same {
        rep.violate(
            "classification",
            format!("line {:?}: implementation {:?}, grammar {:?}", line, got.as_ref().map(|g| (&g.whitespaces, &g.prefix, kind_of(&g.directive_type), &g.args)), want),
            rj(line, None),
        );
    }
    want
}

fn check_pair(rep: &Report, head_line: &str, h: &Head, cont: &str) {
    let want = continues(h, cont);
    if want == Some(None) {
        // Q4: the verdict is not compared, but the call must still return
        rep.add("pairs_skipped_Q4", 1);
        let r = std::panic::catch_unwind(|| {
            if let Some(mut d) = Directive::detect_from(head_line) {
                let _ = d.add_line(cont);
            }
        });
        if r.is_err() {
            rep.violate("panic", format!("add_line panicked: directive {head_line:?}, next line {cont:?}"), rj(head_line, Some(cont)));
        }
        return;
    }
    let got = std::panic::catch_unwind(|| {
        let mut d = Directive::detect_from(head_line)?;
        let r = d.add_line(cont);
        Some((r.is_ok(), d.args))
    });
    let got = match got {
        Ok(Some(g)) => g,
        Ok(None) => return, // classification mismatch is reported by check_line
        Err(_) => {
            rep.violate("panic", format!("add_line panicked: directive {head_line:?}, next line {cont:?}"), rj(head_line, Some(cont)));
            return;
        }
    };
    let ok = match &want {
        None => !got.0 && got.1.len() == 1,
        Some(Some(a)) => got.0 && got.1.len() == 2 && got.1[1] == *a,
        Some(None) => true,
    };
    if !ok {
        rep.violate(
            "continuation",
            format!("directive {head_line:?} + line {cont:?}: implementation continued={} args={:?}, grammar {:?}", got.0, got.1, want),
            rj(head_line, Some(cont)),
        );
    }
    if want.is_some() {
        rep.add("pairs_continuing", 1);
    }
}

pub fn run_c15(tier: &str) -> i32 {
    let rep = Report::new("C15", tier);
    let thorough = rep.thorough();
    let (l_line, l_head, l_cont, e2e1, e2e2) = if thorough { (5, 4, 4, 3, 2) } else { (4, 4, 3, 2, 2) };
    rep.set("token_alphabet", json!(TOK));
    rep.set("continuation_alphabet", json!(CTOK));
    rep.set("bounds", json!(format!("every line of <= {l_line} tokens; every (directive line of <= {l_head} tokens, next line of <= {l_cont} continuation tokens); end-to-end sources [l1 (<= {e2e1} tokens), l2 (<= {e2e2} tokens), END]")));
    rep.assume("Q4 (spaces form of the continuation after a non-ASCII prefix) is excluded and counted");
    // phase 1: classification
    let lines = all_lines(&TOK, l_line);
    rep.set("distinct_lines", json!(lines.len()));
    sharded(&rep, par_threads(), |k, n, rep| {
        let mut kinds = BTreeSet::new();
        for (i, l) in lines.iter().enumerate() {
            if i % n != k {
                continue;
            }
            rep.tv(1);
            rep.st(1);
            if l == " //TXTPP#run x" || l == "-TXTPP#writex" {
                rep.sample(json!({"line": l, "reference_classification": format!("{:?}", classify(l))}));
            }
            match check_line(rep, l) {
                Some(h) => {
                    kinds.insert(format!("{:?}:{}", h.kind, (!h.ws.is_empty() as u8) | ((!h.prefix.is_empty() as u8) << 1) | ((!h.arg.is_empty() as u8) << 2)));
                    rep.add("lines_that_are_directives", 1);
                }
                None => {
                    rep.add("lines_that_are_text", 1);
                }
            }
        }
        rep.set("set_model_steps", json!(kinds.into_iter().collect::<Vec<_>>()));
    });
    // phase 2: continuation pairs
    let heads: Vec<(String, Head)> = all_lines(&TOK, l_head).into_iter().filter_map(|l| classify(&l).map(|h| (l, h))).collect();
    let conts = all_lines(&CTOK, l_cont);
    rep.set("directive_lines", json!(heads.len()));
    rep.set("continuation_lines", json!(conts.len()));
    sharded(&rep, par_threads(), |k, n, rep| {
        let mut shapes = BTreeSet::new();
        for (i, (line, h)) in heads.iter().enumerate() {
            if i % n != k {
                continue;
            }
            if rep.over_cap() {
                rep.note_cap("wall-clock cap in the continuation pairs");
                break;
            }
            for c in &conts {
                check_pair(rep, line, h, c);
            }
            if line == " //TXTPP#" {
                rep.sample(json!({"directive_line": line, "continuations_tried": conts.len(), "example": ["   x", " // x", " //"]}));
            }
            rep.tv(conts.len());
            rep.tr(conts.len());
            rep.add("pairs", conts.len() as u64);
            shapes.insert(format!("cont-{:?}:{}", h.kind, (!h.ws.is_empty() as u8) | ((!h.prefix.is_empty() as u8) << 1)));
        }
        rep.set("set_model_steps", json!(shapes.into_iter().collect::<Vec<_>>()));
    });
    // phase 3: end to end — which lines are kept, which are consumed
    let l1s = all_lines(&TOK, e2e1);
    let l2s = all_lines(&TOK, e2e2);
    rep.set("end_to_end_sources", json!(l1s.len() * l2s.len()));
    sharded(&rep, par_threads(), |k, n, rep| {
        let b = Bench::new(&Tree::new());
        for (i, l1) in l1s.iter().enumerate() {
            if i % n != k {
                continue;
            }
            if rep.over_cap() {
                rep.note_cap("wall-clock cap in the end-to-end pass");
                break;
            }
            for l2 in &l2s {
                let src = format!("{l1}\n{l2}\nEND\n").into_bytes();
                let m = b.model(&src, true);
                if let Err(e) = &m {
                    if e.starts_with("out-of-domain") {
                        rep.add("end_to_end_outside_domain", 1);
                        continue;
                    }
                }
                let r = b.run(&src, Mode::Build, true, true);
                rep.tv(1);
                rep.tr(1);
                rep.add("end_to_end_compared", 1);
                let before = rep.n_violations();
                compare_c01(rep, "end-to-end", &src, true, &m, &r);
                let _ = before;
                // leftovers of odd temp targets
                for e in b.extra_files() {
                    let _ = std::fs::remove_file(b.base.join(&e));
                    let _ = std::fs::remove_dir_all(b.base.join(&e));
                }
            }
        }
        rep.set("set_model_steps", json!(["e2e:0"]));
    });
    // phase 4: the same grammar inside a file that is processed in two passes (it has a .txtpp dependency):
    // directive line l1 (<= 3 tokens, a multi-line kind with a prefix) followed by candidate line l2
    let heads2: Vec<String> = all_lines(&TOK, 3).into_iter().filter(|l| matches!(classify(l), Some(h) if h.kind.multi() && !h.prefix.is_empty())).collect();
    rep.set("two_pass_sources", json!(heads2.len() * l2s.len()));
    sharded(&rep, par_threads(), |k, n, rep| {
        let scratch = Scratch::new();
        let base = scratch.p("p");
        for (i, l1) in heads2.iter().enumerate() {
            if i % n != k {
                continue;
            }
            if rep.over_cap() {
                rep.note_cap("wall-clock cap in the two-pass end-to-end pass");
                break;
            }
            for l2 in &l2s {
                let src = format!("top\nTXTPP#include dep.txt\n{l1}\n{l2}\nEND\n");
                let mut t = Tree::new();
                tfile(&mut t, "dep.txt.txtpp", "D\n");
                tfile(&mut t, "s.txt.txtpp", &src);
                let mt = MTree::from_tree(&t);
                let bench_cmd = |c: &str, _d: &str, _l: &dyn Fn(&str) -> Option<Vec<u8>>| -> Result<String, String> {
                    let o = std::process::Command::new("/bin/sh").arg("-c").arg(c).current_dir(&base).env("TXTPP_FILE", "s.txt.txtpp").stdin(std::process::Stdio::null()).output().map_err(|e| e.to_string())?;
                    if o.status.success() { Ok(String::from_utf8_lossy(&o.stdout).to_string()) } else { Err("status".into()) }
                };
                let _ = std::fs::remove_dir_all(&base);
                std::fs::create_dir_all(&base).unwrap();
                write_tree(&base, &t);
                let mut m = Model::new(&mt, true, &bench_cmd);
                let want = m.eval("s.txt.txtpp");
                if matches!(&want, Err(e) if e.starts_with("out-of-domain")) {
                    continue;
                }
                let r = crate::ctl::run_canonical(txtpp::Config {
                    base_dir: base.clone(),
                    shell_cmd: String::new(),
                    inputs: vec!["s.txt".into()],
                    recursive: false,
                    num_threads: 4,
                    mode: Mode::Build,
                    verbosity: txtpp::Verbosity::Quiet,
                    trailing_newline: true,
                });
                rep.tv(1);
                rep.tr(1);
                rep.add("two_pass_compared", 1);
                let got = std::fs::read(base.join("s.txt")).ok();
                let bad = if !r.clean() {
                    Some(format!("run ended with {} {:?}", r.verdict.kind(), r.worker_panics))
                } else {
                    match (&want, r.verdict.is_ok()) {
                        (Ok(mf), true) => {
                            if got.as_ref().map(|g| mf.outs.iter().any(|o| o == g)) == Some(true) {
                                None
                            } else {
                                Some(format!("output {:?}, grammar prescribes {:?}", got.as_ref().map(|x| show(x)), mf.outs.iter().map(|x| show(x)).collect::<Vec<_>>()))
                            }
                        }
                        (Err(_), false) => None,
                        (Ok(_), false) => Some(format!("build failed ({}) but the lines are well-formed", crate::sched::first_lines(&r.verdict.detail(), 4))),
                        (Err(e), true) => Some(format!("build succeeded but the grammar prescribes an error: {e}")),
                    }
                };
                if let Some(msg) = bad {
                    rep.violate(
                        "two-pass-line-handling",
                        format!("file with a dependency, then {l1:?} followed by {l2:?}: {msg}"),
                        json!({"engine": "U-gram", "two_pass": true, "line": l1, "continuation": l2}),
                    );
                }
            }
        }
        rep.set("set_model_steps", json!(["e2e2:0"]));
    });
    finish_steps(&rep);
    // the end-to-end comparison reuses C01's oracle: relabel its replay engine
    if rep.get("pairs_continuing") == 0 || rep.get("lines_that_are_directives") == 0 {
        rep.machinery("vacuous enumeration".into());
    }
    rep.finish()
}

pub fn replay(v: &serde_json::Value) -> bool {
    let rep = Report::new("C15", "quick");
    let line = v["line"].as_str().unwrap_or("");
    if v["two_pass"].as_bool() == Some(true) {
        let l2 = v["continuation"].as_str().unwrap_or("");
        let scratch = Scratch::new();
        let base = scratch.p("p");
        let src = format!("top\nTXTPP#include dep.txt\n{line}\n{l2}\nEND\n");
        let mut t = Tree::new();
        tfile(&mut t, "dep.txt.txtpp", "D\n");
        tfile(&mut t, "s.txt.txtpp", &src);
        std::fs::create_dir_all(&base).unwrap();
        write_tree(&base, &t);
        let mt = MTree::from_tree(&t);
        let mut m = Model::new(&mt, true, &std_cmd_or_fail);
        let want = m.eval("s.txt.txtpp");
        let r = crate::ctl::run_canonical(txtpp::Config { base_dir: base.clone(), shell_cmd: String::new(), inputs: vec!["s.txt".into()], recursive: false, num_threads: 4, mode: Mode::Build, verbosity: txtpp::Verbosity::Quiet, trailing_newline: true });
        let got = std::fs::read(base.join("s.txt")).ok();
        println!("replay: source {:?}: implementation {} {:?}; model {:?}", src, r.verdict.kind(), got.as_ref().map(|x| show(x)), want.as_ref().map(|m| m.outs.iter().map(|x| show(x)).collect::<Vec<_>>()));
        return match (&want, r.verdict.is_ok()) {
            (Ok(mf), true) => got.as_ref().map(|g| mf.outs.iter().any(|o| o == g)) != Some(true),
            (Err(_), false) => false,
            _ => true,
        } || !r.clean();
    }
    let h = check_line(&rep, line);
    if let (Some(c), Some(h)) = (v["continuation"].as_str(), h) {
        check_pair(&rep, line, &h, c);
    }
    for x in rep.violations.lock().unwrap().iter() {
        println!("  [{}] {}", x.signature, x.message);
    }
    rep.n_violations() > 0
}
