//! Engine K: crash points of a build (C08).
use crate::util::*;

pub fn run_into(_rep: &Report) {}
