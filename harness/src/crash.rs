//! Engine K (C08): every crash point of a build. The production binary runs under strace with
//! SIGKILL injected at the k-th file-system call (k = 1, 2, ... until a run completes); every tree
//! left behind is rebuilt and must equal the result of a build from a pristine tree.
#![allow(dead_code)]

use crate::hist::*;
use crate::util::*;
use serde_json::json;
use std::collections::BTreeMap;
use txtpp::Mode;

const KMAX: usize = 160;

fn strace_works() -> bool {
    std::process::Command::new("strace")
        .args(["-f", "-qq", "-o", "/dev/null", "-e", "trace=openat", "-e", "inject=openat:signal=SIGKILL:when=9999", "true"])
        .status()
        .map(|s| s.success())
        .unwrap_or(false)
}

pub fn run_into(rep: &Report) {
    if !strace_works() {
        rep.set("crash_points", json!("unavailable: strace could not trace a child process here; C08 rests on engine H's pre-state enumeration only"));
        rep.note_cap("crash-point enumeration unavailable (ptrace not permitted)");
        return;
    }
    // (project, start state, --needed)
    let mut cases = vec![];
    for pname in ["solo", "chain", "nested", "big"] {
        for start in ["pristine", "stale-after-edit"] {
            for needed in [false, true] {
                cases.push((pname, start, needed));
            }
        }
    }
    let total = cases.len() * KMAX;
    sharded_dyn(rep, par_threads() * 2, |_w, _n, next, rep| {
        let b = Bench::new();
        let mut fc = FreshCache::new();
        let mut done_k: BTreeMap<usize, usize> = BTreeMap::new();
        loop {
            let idx = next();
            if idx >= total {
                break;
            }
            if rep.over_cap() {
                rep.note_cap("wall-clock cap in the crash-point enumeration");
                break;
            }
            let (ci, k) = (idx / KMAX, idx % KMAX + 1);
            if done_k.get(&ci).map(|&d| k > d).unwrap_or(false) {
                continue;
            }
            let (pname, start, needed) = cases[ci];
            let p = project(pname);
            let n = p.sources.len();
            let (ver_old, ver_new): (Vec<usize>, Vec<usize>) = (vec![0; n], if start == "pristine" { vec![0; n] } else { vec![1; n] });
            let fresh_new = fc.get(&b, &p, &ver_new, true, 0);
            let fresh_old = fc.get(&b, &p, &ver_old, true, 0);
            let mut t = p.pristine(&ver_new);
            if start != "pristine" {
                for (g, bytes) in &fresh_old.files {
                    tfile(&mut t, g, bytes);
                }
            }
            b.materialize(&t);
            let inj = format!("inject=openat,write,unlink,unlinkat,rename:signal=SIGKILL:when={k}");
            let mut c = std::process::Command::new("strace");
            c.args(["-f", "-qq", "-o", "/dev/null", "-e", "trace=openat,write,unlink,unlinkat,rename", "-e", &inj]);
            c.arg(production_cli());
            if needed {
                c.arg("-N");
            }
            c.args(["-q", "-j1", "-r", "."]);
            c.current_dir(b.base()).env_remove("TXTPP_FILE").stdout(std::process::Stdio::null()).stderr(std::process::Stdio::null());
            let (st, timed_out) = status_with_timeout(&mut c, 40.0);
            use std::os::unix::process::ExitStatusExt;
            if timed_out {
                rep.violate(
                    "build-under-trace-never-ended",
                    format!("[{pname}] start={start} needed={needed}: the traced build (kill point {k}) did not end within 40 s"),
                    json!({"engine": "K", "project": pname, "start": start, "needed": needed, "k": k, "left_behind": tree_json(&state_of(&snapshot(&b.base())))}),
                );
                continue;
            }
            let st = st.expect("strace status");
            let killed = st.signal().is_some() || st.code() == Some(137);
            rep.tv(1);
            rep.tr(1);
            if killed {
                rep.add("builds_killed_at_a_crash_point", 1);
            } else {
                let e = done_k.entry(ci).or_insert(k);
                *e = (*e).min(k);
                rep.add("builds_that_completed", 1);
            }
            let left = state_of(&snapshot(&b.base()));
            // (i) is the state inside engine H's enumerated family? absent | prefix of the new content | the old content
            for g in p.all_generated() {
                if let Some(Node::File(bytes)) = left.get(&g) {
                    let is_prefix = fresh_new.files.get(&g).map(|f| f.starts_with(bytes)).unwrap_or(false);
                    let is_old = fresh_old.files.get(&g) == Some(bytes);
                    if !is_prefix && !is_old {
                        rep.add("crash_states_outside_the_enumerated_prestate_family", 1);
                    } else if is_prefix && fresh_new.files.get(&g).map(|f| f.len()) != Some(bytes.len()) {
                        rep.add("crash_states_with_a_partial_file", 1);
                    }
                }
            }
            // (ii) building again repairs everything
            let o = b.run(&p, &left, &Mode::Build, &p.sels[0], true);
            rep.tv(1);
            let mut bad = vec![];
            if o.abnormal.is_some() || o.ok != fresh_new.ok {
                bad.push(format!("rebuild verdict ok={} ({}) but a pristine build ok={}", o.ok, o.detail, fresh_new.ok));
            } else {
                for g in p.all_generated() {
                    let got = match o.after.get(&g) {
                        Some(Meta { node: Node::File(x), .. }) => Some(x),
                        _ => None,
                    };
                    if got != fresh_new.files.get(&g) {
                        bad.push(format!("{g} is {:?}, a pristine build writes {:?}", got.map(|x| show(x)), fresh_new.files.get(&g).map(|x| show(x))));
                    }
                }
            }
            if !bad.is_empty() {
                rep.violate(
                    "not-repaired-after-crash",
                    format!("[{pname}] start={start} needed={needed}: build killed at file-system call #{k} per thread, then built again :: {}", bad.join("; ")),
                    json!({"engine": "K", "project": pname, "start": start, "needed": needed, "k": k, "left_behind": tree_json(&left)}),
                );
            }
            if k == 6 && ci == 2 {
                rep.sample(json!({"crash_point": {"project": pname, "start": start, "needed": needed, "killed_at_call": k}, "left_behind": left.iter().filter(|(g, _)| p.all_generated().contains(*g)).map(|(g, n)| (g.clone(), match n { Node::File(b) => show(b), _ => "?".into() })).collect::<BTreeMap<_, _>>()}));
            }
        }
    });
    rep.set("crash_point_cases", json!(cases.iter().map(|c| format!("{}/{}/needed={}", c.0, c.1, c.2)).collect::<Vec<_>>()));
    if rep.get("builds_killed_at_a_crash_point") == 0 {
        rep.machinery("crash-point enumeration killed no build".into());
    }
}

pub fn replay(v: &serde_json::Value) -> bool {
    let p = project(v["project"].as_str().unwrap_or("solo"));
    let left = tree_from_json(&v["left_behind"]);
    let b = Bench::new();
    let mut fc = FreshCache::new();
    let n = p.sources.len();
    let ver = if v["start"].as_str() == Some("pristine") { vec![0; n] } else { vec![1; n] };
    let fresh = fc.get(&b, &p, &ver, true, 0);
    let o = b.run(&p, &left, &Mode::Build, &p.sels[0], true);
    println!("replay: rebuild of the tree left behind by the killed build: ok={} {}", o.ok, o.detail);
    let mut bad = o.ok != fresh.ok;
    for g in p.all_generated() {
        let got = match o.after.get(&g) {
            Some(Meta { node: Node::File(x), .. }) => Some(x),
            _ => None,
        };
        if got != fresh.files.get(&g) {
            println!("  {g}: {:?} vs pristine build {:?}", got.map(|x| show(x)), fresh.files.get(&g).map(|x| show(x)));
            bad = true;
        }
    }
    bad
}
