//! Engine S, part 2: dependency-graph projects, exhaustive schedule exploration, oracles for C02/C03/C05.
#![allow(dead_code)]

use crate::ctl::*;
use crate::util::*;
use serde_json::{json, Value};
use std::collections::{BTreeMap, BTreeSet};
use std::path::Path;
use txtpp::{Config, Mode, Verbosity};

pub const NAMES: [&str; 5] = ["a", "b", "c", "d", "e"];

#[derive(Clone, Copy, PartialEq, Eq, Hash, PartialOrd, Ord, Debug)]
pub struct Graph {
    pub n: usize,
    pub adj: u32, // bit i*n+j: file i depends on file j
}

impl Graph {
    pub fn has(&self, i: usize, j: usize) -> bool {
        self.adj >> (i * self.n + j) & 1 == 1
    }
    pub fn deps(&self, i: usize) -> Vec<usize> {
        (0..self.n).filter(|&j| self.has(i, j)).collect()
    }
    pub fn from_edges(n: usize, edges: &[(usize, usize)]) -> Graph {
        let mut adj = 0;
        for &(i, j) in edges {
            adj |= 1 << (i * n + j);
        }
        Graph { n, adj }
    }
    pub fn edges(&self) -> Vec<(usize, usize)> {
        let mut v = vec![];
        for i in 0..self.n {
            for j in 0..self.n {
                if self.has(i, j) {
                    v.push((i, j));
                }
            }
        }
        v
    }
    pub fn reach(&self, roots: &[usize]) -> BTreeSet<usize> {
        let mut r = BTreeSet::new();
        let mut st: Vec<usize> = roots.to_vec();
        while let Some(x) = st.pop() {
            if r.insert(x) {
                st.extend(self.deps(x));
            }
        }
        r
    }
    /// nodes lying on a cycle (self-loops included)
    pub fn on_cycle(&self) -> BTreeSet<usize> {
        (0..self.n)
            .filter(|&v| self.deps(v).iter().any(|&d| self.reach(&[d]).contains(&v)))
            .collect()
    }
    /// nodes that can reach a cycle
    pub fn cyc(&self) -> BTreeSet<usize> {
        let oc = self.on_cycle();
        (0..self.n).filter(|&v| self.reach(&[v]).iter().any(|x| oc.contains(x))).collect()
    }
    pub fn acyclic(&self) -> bool {
        self.on_cycle().is_empty()
    }
    fn permuted(&self, perm: &[usize]) -> u32 {
        let mut a = 0;
        for i in 0..self.n {
            for j in 0..self.n {
                if self.has(i, j) {
                    a |= 1 << (perm[i] * self.n + perm[j]);
                }
            }
        }
        a
    }
    pub fn canonical(&self) -> u32 {
        perms(self.n).iter().map(|p| self.permuted(p)).min().unwrap()
    }
    pub fn describe(&self) -> String {
        let e: Vec<String> = self.edges().iter().map(|&(i, j)| format!("{}>{}", NAMES[i], NAMES[j])).collect();
        format!("n={} [{}]", self.n, e.join(" "))
    }
}

pub fn perms(n: usize) -> Vec<Vec<usize>> {
    fn rec(cur: &mut Vec<usize>, n: usize, out: &mut Vec<Vec<usize>>) {
        if cur.len() == n {
            out.push(cur.clone());
            return;
        }
        for i in 0..n {
            if !cur.contains(&i) {
                cur.push(i);
                rec(cur, n, out);
                cur.pop();
            }
        }
    }
    let mut out = vec![];
    rec(&mut vec![], n, &mut out);
    out
}

pub fn all_graphs(n: usize) -> Vec<Graph> {
    (0..(1u32 << (n * n))).map(|adj| Graph { n, adj }).collect()
}

pub fn iso_classes(n: usize) -> Vec<Graph> {
    all_graphs(n).into_iter().filter(|g| g.canonical() == g.adj).collect()
}

/// one representative per isomorphism class of DAGs on n files (every DAG has a topological order, so
/// enumerating edges i -> j with i < j reaches every class)
pub fn dag_classes(n: usize) -> Vec<Graph> {
    let pairs: Vec<(usize, usize)> = (0..n).flat_map(|i| ((i + 1)..n).map(move |j| (i, j))).collect();
    let mut seen = BTreeSet::new();
    let mut out = vec![];
    for m in 0..(1u32 << pairs.len()) {
        let edges: Vec<(usize, usize)> = pairs.iter().enumerate().filter(|(k, _)| m >> k & 1 == 1).map(|(_, e)| *e).collect();
        let g = Graph::from_edges(n, &edges);
        let c = g.canonical();
        if seen.insert(c) {
            out.push(Graph { n, adj: c });
        }
    }
    out
}

pub fn named_4() -> Vec<(&'static str, Graph)> {
    vec![
        ("chain", Graph::from_edges(4, &[(0, 1), (1, 2), (2, 3)])),
        ("diamond", Graph::from_edges(4, &[(0, 1), (0, 2), (1, 3), (2, 3)])),
        ("fan-in", Graph::from_edges(4, &[(0, 3), (1, 3), (2, 3)])),
        ("fan-out", Graph::from_edges(4, &[(0, 1), (0, 2), (0, 3)])),
        ("2cycle+bystander", Graph::from_edges(4, &[(0, 1), (1, 0), (2, 0)])),
        ("selfloop+chain", Graph::from_edges(4, &[(0, 1), (1, 2), (2, 2)])),
        // a triangle with a tail: the shared dependency has a dependency of its own
        ("triangle+tail", Graph::from_edges(4, &[(0, 1), (0, 2), (1, 2), (2, 3)])),
        ("transitive", Graph::from_edges(4, &[(0, 1), (0, 2), (0, 3), (1, 2), (2, 3)])),
    ]
}

#[derive(Clone, Copy, PartialEq, Eq, Debug)]
pub enum Style {
    /// TXTPP#include Y.txt
    Include,
    /// TXTPP#after Y.txt + run cat Y.txt
    After,
    /// even-numbered edges include, odd-numbered after+cat
    Mixed,
    /// include edges plus an execution marker command after the last dependency line
    Marker,
    /// include edges, and the last dependency directive is the very last line of the file
    NoTail,
    /// every dependency is included twice: once at its place and once more after all the others
    Dup,
    /// Dup plus the execution marker of Marker
    DupMarker,
    /// include edges written with the absolute path of the dependency's output
    AbsInclude,
    /// Marker, but the shell of every marker command kills itself (SIGKILL) the first time it runs, after the
    /// marker was written: the run fails, and no command may be run a second time
    MarkerKillOnce,
}

#[derive(Clone, Copy, PartialEq, Eq, Debug)]
pub enum Pre {
    Absent,
    Stale,
    Built,
    /// every output path is a symbolic link to a stale file in another directory (txtpp writes through it)
    StaleLink,
}

#[derive(Clone, Debug)]
pub struct Proj {
    pub g: Graph,
    pub style: Style,
    pub layout: bool,
    /// this file ends with a directive that fails (include of a missing file): the run must end with Err
    pub err: Option<usize>,
}

thread_local! {
    /// when set, the files of a project live in different directories and use the three source-name shapes
    pub static LAYOUT: std::cell::Cell<bool> = const { std::cell::Cell::new(false) };
}
const LAYOUT_DIRS: [&str; 5] = ["", "sub/", "sub/deep/", "", "sub/"];
pub fn dir_of_file(i: usize) -> &'static str {
    if LAYOUT.with(|l| l.get()) {
        LAYOUT_DIRS[i]
    } else {
        ""
    }
}
pub fn src_name(i: usize) -> String {
    if LAYOUT.with(|l| l.get()) {
        match i % 3 {
            0 => format!("{}{}.txt.txtpp", LAYOUT_DIRS[i], NAMES[i]),
            // infix shape with a dotted stem (b.v2.txtpp.txt -> b.v2.txt)
            1 => format!("{}{}.v2.txtpp.txt", LAYOUT_DIRS[i], NAMES[i]),
            _ => format!("{}{}.txtpp", LAYOUT_DIRS[i], NAMES[i]),
        }
    } else {
        format!("{}.txt.txtpp", NAMES[i])
    }
}
pub fn out_name(i: usize) -> String {
    if LAYOUT.with(|l| l.get()) {
        match i % 3 {
            2 => format!("{}{}", LAYOUT_DIRS[i], NAMES[i]),
            1 => format!("{}{}.v2.txt", LAYOUT_DIRS[i], NAMES[i]),
            _ => format!("{}{}.txt", LAYOUT_DIRS[i], NAMES[i]),
        }
    } else {
        format!("{}.txt", NAMES[i])
    }
}
/// path of file j's output as written in an include directive of file i
pub fn rel_out(i: usize, j: usize) -> String {
    if !LAYOUT.with(|l| l.get()) {
        return format!("{}.txt", NAMES[j]);
    }
    let from: Vec<&str> = LAYOUT_DIRS[i].split('/').filter(|s| !s.is_empty()).collect();
    let to = out_name(j);
    let t: Vec<&str> = to.split('/').collect();
    let mut k = 0;
    while k < from.len() && k + 1 < t.len() && from[k] == t[k] {
        k += 1;
    }
    let mut parts: Vec<String> = vec!["..".to_string(); from.len() - k];
    parts.extend(t[k..].iter().map(|s| s.to_string()));
    parts.join("/")
}

impl Proj {
    pub fn source(&self, i: usize, marker_dir: &Path) -> String {
        let x = NAMES[i];
        let mut s = format!("{x}-head\n");
        for (k, j) in self.g.deps(i).into_iter().enumerate() {
            let y = rel_out(i, j);
            let y = y.as_str();
            let after = match self.style {
                Style::Include | Style::Marker | Style::NoTail | Style::Dup | Style::DupMarker | Style::AbsInclude | Style::MarkerKillOnce => false,
                Style::After => true,
                Style::Mixed => k % 2 == 1,
            };
            if after {
                s.push_str(&format!("TXTPP#after {y}\n-TXTPP#run cat {y}\n"));
            } else if self.style == Style::AbsInclude {
                let base = marker_dir.parent().map(|p| p.join("p")).unwrap_or_default();
                s.push_str(&format!("TXTPP#include {}/{}\n", base.display(), out_name(j)));
            } else {
                s.push_str(&format!("TXTPP#include {y}\n"));
            }
        }
        if matches!(self.style, Style::Dup | Style::DupMarker) {
            for j in self.g.deps(i) {
                s.push_str(&format!("TXTPP#include ./{}\n", rel_out(i, j)));
            }
        }
        if self.style == Style::MarkerKillOnce {
            let m = marker_dir.display();
            s.push_str(&format!("-TXTPP#run echo x >> {m}/{x}; [ -e {m}/{x}.once ] || {{ : > {m}/{x}.once; kill -9 $$; }}\n"));
        }
        if matches!(self.style, Style::Marker | Style::DupMarker) {
            s.push_str(&format!("-TXTPP#run echo x >> {}/{x}\n", marker_dir.display()));
        }
        if self.style == Style::NoTail && !self.g.deps(i).is_empty() {
            return s;
        }
        s.push_str(&format!("{x}-tail\n"));
        if self.err == Some(i) {
            s.push_str("TXTPP#include no-such-file.txt\n");
        }
        s
    }
    /// closed-form serial oracle; None for files that can reach a cycle
    pub fn oracle(&self, i: usize) -> Option<String> {
        if self.g.cyc().contains(&i) {
            return None;
        }
        let x = NAMES[i];
        let mut s = format!("{x}-head\n");
        for j in self.g.deps(i) {
            s.push_str(&self.oracle(j)?);
        }
        if matches!(self.style, Style::Dup | Style::DupMarker) {
            for j in self.g.deps(i) {
                s.push_str(&self.oracle(j)?);
            }
        }
        if self.style == Style::NoTail && !self.g.deps(i).is_empty() {
            // the file ends with a directive whose output ends with a newline: the option adds one more
            s.push('\n');
            return Some(s);
        }
        s.push_str(&format!("{x}-tail\n"));
        Some(s)
    }
    pub fn describe(&self) -> String {
        format!("{} style={:?}{}{}", self.g.describe(), self.style, if self.layout { " layout=dirs+shapes" } else { "" }, match self.err { Some(k) => format!(" failing-file={}", NAMES[k]), None => String::new() })
    }
}

#[derive(Clone, Debug)]
pub struct Case {
    pub proj: Proj,
    pub inputs: Vec<String>,
    pub roots: Vec<usize>,
    pub pre: Pre,
    pub mode: Mode,
    /// 0 = never saturated (files + 3)
    pub threads: usize,
    /// extra entries (symlink aliases etc.) written into the project dir
    pub extra: Tree,
    pub recursive: bool,
}

impl Case {
    pub fn describe(&self) -> String {
        format!(
            "{} inputs={:?} pre={:?} mode={:?} threads={}{}",
            self.proj.describe(),
            self.inputs,
            self.pre,
            self.mode,
            self.threads,
            if self.extra.is_empty() { String::new() } else { format!(" extra={:?}", self.extra.keys().collect::<Vec<_>>()) }
        )
    }
    pub fn required(&self) -> BTreeSet<usize> {
        self.proj.g.reach(&self.roots)
    }
    pub fn to_json(&self) -> Value {
        json!({
            "engine": "S",
            "n": self.proj.g.n, "adj": self.proj.g.adj, "edges": self.proj.g.describe(),
            "style": format!("{:?}", self.proj.style),
            "layout": self.proj.layout,
            "err": self.proj.err,
            "inputs": self.inputs, "roots": self.roots,
            "pre": format!("{:?}", self.pre), "mode": format!("{:?}", self.mode),
            "threads": self.threads, "recursive": self.recursive,
            "extra": tree_json(&self.extra),
        })
    }
    pub fn from_json(v: &Value) -> Case {
        let style = match v["style"].as_str().unwrap_or("") {
            "After" => Style::After,
            "Mixed" => Style::Mixed,
            "Marker" => Style::Marker,
            "NoTail" => Style::NoTail,
            "Dup" => Style::Dup,
            "DupMarker" => Style::DupMarker,
            "AbsInclude" => Style::AbsInclude,
            "MarkerKillOnce" => Style::MarkerKillOnce,
            _ => Style::Include,
        };
        let pre = match v["pre"].as_str().unwrap_or("") {
            "Absent" => Pre::Absent,
            "Built" => Pre::Built,
            "StaleLink" => Pre::StaleLink,
            _ => Pre::Stale,
        };
        Case {
            proj: Proj {
                g: Graph { n: v["n"].as_u64().unwrap() as usize, adj: v["adj"].as_u64().unwrap() as u32 },
                style,
                layout: v["layout"].as_bool().unwrap_or(false),
                err: v["err"].as_u64().map(|x| x as usize),
            },
            inputs: v["inputs"].as_array().unwrap().iter().map(|x| x.as_str().unwrap().to_string()).collect(),
            roots: v["roots"].as_array().unwrap().iter().map(|x| x.as_u64().unwrap() as usize).collect(),
            pre,
            mode: mode_from(v["mode"].as_str().unwrap_or("Build")),
            threads: v["threads"].as_u64().unwrap_or(0) as usize,
            extra: tree_from_json(&v["extra"]),
            recursive: v["recursive"].as_bool().unwrap_or(false),
        }
    }
}

pub fn mode_from(s: &str) -> Mode {
    match s {
        "InMemoryBuild" => Mode::InMemoryBuild,
        "Verify" => Mode::Verify,
        "Clean" => Mode::Clean,
        _ => Mode::Build,
    }
}

/// What one complete schedule left behind
#[derive(Clone, Debug)]
pub struct Obs {
    pub run: RunResult,
    pub outs: Vec<Option<Vec<u8>>>,
    pub markers: Vec<usize>,
}

impl Obs {
    pub fn outcome_key(&self) -> String {
        let outs: Vec<String> = self
            .outs
            .iter()
            .map(|o| match o {
                None => "-".to_string(),
                Some(b) => show(b),
            })
            .collect();
        format!("{}|{}|{:?}", self.run.verdict.kind(), outs.join("|"), self.markers)
    }
}

pub struct CaseEnv {
    pub scratch: Scratch,
}

impl CaseEnv {
    pub fn new() -> Self {
        CaseEnv { scratch: Scratch::new() }
    }
    pub fn base(&self) -> std::path::PathBuf {
        self.scratch.p("p")
    }
    pub fn markers(&self) -> std::path::PathBuf {
        self.scratch.p("m")
    }
    /// (re)create the project tree in its pre-state
    pub fn reset(&self, case: &Case) {
        LAYOUT.with(|l| l.set(case.proj.layout));
        let base = self.base();
        let _ = std::fs::remove_dir_all(&base);
        let _ = std::fs::remove_dir_all(self.markers());
        std::fs::create_dir_all(&base).unwrap();
        std::fs::create_dir_all(self.markers()).unwrap();
        let n = case.proj.g.n;
        std::fs::create_dir_all(base.join("sub/deep")).unwrap();
        for i in 0..n {
            std::fs::write(base.join(src_name(i)), case.proj.source(i, &self.markers())).unwrap();
            match case.pre {
                Pre::Absent => {}
                Pre::Stale => std::fs::write(base.join(out_name(i)), format!("STALE-{}\n", NAMES[i])).unwrap(),
                Pre::StaleLink => {
                    std::fs::create_dir_all(base.join("store")).unwrap();
                    let real = base.join(format!("store/{}.data", NAMES[i]));
                    std::fs::write(&real, format!("STALE-{}\n", NAMES[i])).unwrap();
                    let _ = std::fs::remove_file(base.join(out_name(i)));
                    std::os::unix::fs::symlink(&real, base.join(out_name(i))).unwrap();
                }
                Pre::Built => {
                    if let Some(o) = case.proj.oracle(i) {
                        std::fs::write(base.join(out_name(i)), o).unwrap()
                    }
                }
            }
        }
        write_tree(&base, &case.extra);
        // modification times are part of the pre-state, not an accident of how fast the files were written:
        // sources at the sentinel time, pre-existing outputs 100 s later (built after the last edit, then gone stale
        // through a dependency) - code that looks at mtimes behaves the same in every exploration and replay
        for i in 0..n {
            touch_at(&base.join(src_name(i)), 0);
            let o = base.join(out_name(i));
            if std::fs::symlink_metadata(&o).is_ok() {
                touch_at(&o, 100);
                if let Ok(real) = std::fs::canonicalize(&o) {
                    touch_at(&real, 100);
                }
            }
        }
    }
    pub fn config(&self, case: &Case) -> Config {
        Config {
            base_dir: self.base(),
            shell_cmd: String::new(),
            inputs: case.inputs.clone(),
            recursive: case.recursive,
            num_threads: if case.threads == 0 { case.proj.g.n + 3 } else { case.threads },
            mode: case.mode.clone(),
            verbosity: Verbosity::Quiet,
            trailing_newline: true,
        }
    }
    pub fn observe(&self, case: &Case, run: RunResult) -> Obs {
        let n = case.proj.g.n;
        let outs = (0..n).map(|i| std::fs::read(self.base().join(out_name(i))).ok()).collect();
        let markers = (0..n)
            .map(|i| std::fs::read(self.markers().join(NAMES[i])).map(|b| b.iter().filter(|&&c| c == b'\n').count()).unwrap_or(0))
            .collect();
        Obs { run, outs, markers }
    }
    pub fn run_one(&self, case: &Case, prefix: &[usize], explore: Explore) -> Obs {
        self.reset(case);
        let r = run_controlled(
            self.config(case),
            &CtlOpts { prefix: prefix.to_vec(), explore, max_tasks: 64 },
        );
        self.observe(case, r)
    }
}

/// wall-clock deadline (seconds since the epoch) after which explorations stop and report "incomplete"
pub static DEADLINE: std::sync::atomic::AtomicU64 = std::sync::atomic::AtomicU64::new(u64::MAX);

fn past_deadline() -> bool {
    let now = std::time::SystemTime::now().duration_since(std::time::UNIX_EPOCH).map(|d| d.as_secs()).unwrap_or(0);
    now > DEADLINE.load(std::sync::atomic::Ordering::Relaxed)
}

/// Explore every schedule of a case; `f` sees each complete schedule. Returns (runs, complete?)
pub fn explore_case(
    env: &CaseEnv,
    case: &Case,
    explore: Explore,
    max_runs: usize,
    mut f: impl FnMut(&Obs),
) -> Result<(usize, bool), String> {
    let mut stack: Vec<Vec<usize>> = vec![vec![]];
    let mut runs = 0usize;
    while let Some(prefix) = stack.pop() {
        if runs >= max_runs || (runs % 64 == 63 && past_deadline()) {
            return Ok((runs, false));
        }
        let o = env.run_one(case, &prefix, explore);
        runs += 1;
        if let Some(m) = &o.run.replay_misfit {
            return Err(format!("replay divergence in {} under prefix {prefix:?}: {m}", case.describe()));
        }
        let ch = o.run.choices();
        if o.run.verdict != Verdict::Diverges && (ch.len() < prefix.len() || ch[..prefix.len()] != prefix[..]) {
            return Err(format!("replay divergence in {}: prefix {prefix:?} but run made {ch:?}", case.describe()));
        }
        if o.run.verdict == Verdict::Diverges {
            // the schedule tree below a diverging run is unbounded: one counterexample ends the case
            f(&o);
            return Ok((runs, true));
        }
        for i in (prefix.len()..o.run.decisions.len()).rev() {
            for alt in (1..o.run.decisions[i].enabled.len()).rev() {
                let mut p = ch[..i].to_vec();
                p.push(alt);
                stack.push(p);
            }
        }
        f(&o);
    }
    Ok((runs, true))
}

// ---------------------------------------------------------------- trace helpers

fn idx_all(trace: &[String], ev: &str) -> Vec<usize> {
    trace.iter().enumerate().filter(|(_, e)| e.as_str() == ev).map(|(i, _)| i).collect()
}

fn final_pass(g: &Graph, i: usize) -> u8 {
    if g.deps(i).is_empty() {
        1
    } else {
        2
    }
}

pub struct Finding {
    pub sig: String,
    pub msg: String,
}

fn fnd(sig: &str, msg: String) -> Finding {
    Finding { sig: sig.to_string(), msg }
}

/// Oracle shared by C02/C03/C05 on one complete schedule
pub fn check_obs(prop: &str, case: &Case, o: &Obs) -> Vec<Finding> {
    let g = &case.proj.g;
    let n = g.n;
    let req = case.required();
    let cyc = g.cyc();
    let cyc_req: BTreeSet<usize> = req.intersection(&cyc).cloned().collect();
    let t = &o.run.trace;
    let mut out = vec![];
    // termination / no panic: every property that explores schedules wants it
    match &o.run.verdict {
        Verdict::Hang => out.push(fnd("hang", "coordinator would wait forever (no task left, not done)".into())),
        Verdict::Stuck(w) => out.push(fnd("hang", format!("the run never returned: {w}"))),
        Verdict::Diverges => out.push(fnd("diverges", "unbounded task creation".into())),
        Verdict::Panic(m) => out.push(fnd("coordinator-panic", format!("coordinator panicked: {m}"))),
        _ => {}
    }
    if o.run.hang_in_drop {
        out.push(fnd("hang", "the coordinator's clean-up loop would wait forever (nothing left to receive, counters never match)".into()));
    }
    if !o.run.worker_panics.is_empty() {
        out.push(fnd("worker-panic", format!("worker panicked in {:?}", o.run.worker_panics)));
    }
    if !out.is_empty() {
        return out;
    }
    let ok = o.run.verdict.is_ok();
    if let Some(k) = case.proj.err {
        // a failing file: the run must end (checked above) with Err if the file is required; nothing runs twice
        if ok && req.contains(&k) {
            out.push(fnd("failure-not-reported", format!("{} fails but the run reported success", src_name(k))));
        }
        for i in 0..n {
            for pass in [1u8, 2] {
                let c = idx_all(t, &format!("B pp:{}:{}", src_name(i), pass)).len();
                if c > 1 {
                    out.push(fnd("processed-twice", format!("{} pass {} ran {} times (trace {:?})", src_name(i), pass, c, t)));
                }
            }
        }
        return out;
    }
    let drain = t.iter().position(|e| e == "DRAIN").unwrap_or(t.len());
    let is_build = matches!(case.mode, Mode::Build | Mode::InMemoryBuild);
    let expect_ok = cyc_req.is_empty();
    if prop == "C02" || prop == "C05" {
        if expect_ok && !ok {
            out.push(fnd(
                "spurious-failure",
                format!("acyclic requirement but run failed: {}", first_lines(&o.run.verdict.detail(), 6)),
            ));
        }
    }
    if prop == "C05" && !expect_ok && ok {
        out.push(fnd("cycle-not-reported", format!("files {:?} can reach a cycle but the run reported success", names(&cyc_req))));
    }
    // outputs of required files outside the cycle's upstream closure
    if prop == "C02" || prop == "C05" || prop == "C03" {
        for &i in &req {
            if cyc.contains(&i) {
                continue;
            }
            let want = case.proj.oracle(i).unwrap();
            let must_be_written = is_build || case.pre == Pre::Built;
            if !must_be_written {
                continue;
            }
            // on an Err run caused by a cycle every non-cyclic file still completes (C05); C02/C03 speak about Ok runs
            if !ok && prop != "C05" {
                continue;
            }
            match &o.outs[i] {
                Some(b) if b == want.as_bytes() => {}
                other => out.push(fnd(
                    "wrong-output",
                    format!(
                        "{} is {:?}, serial oracle {:?} (verdict {})",
                        out_name(i),
                        other.as_ref().map(|b| show(b)),
                        want,
                        o.run.verdict.kind()
                    ),
                )),
            }
        }
    }
    if prop == "C02" && ok {
        // happens-before on the hook trace
        for &d in &req {
            for x in g.deps(d) {
                let ex = idx_all(t, &format!("E pp:{}:{}", src_name(x), final_pass(g, x)));
                let bd = idx_all(t, &format!("B pp:{}:2", src_name(d)));
                match (ex.last(), bd.first()) {
                    (Some(e), Some(b)) if e < b => {}
                    _ => out.push(fnd(
                        "order",
                        format!("final pass of {} did not start after the completion of {} (trace {:?})", src_name(d), src_name(x), t),
                    )),
                }
            }
        }
    }
    if prop == "C03" || prop == "C02" {
        if ok && t[drain..].iter().any(|e| e.starts_with("B ")) {
            out.push(fnd("success-before-completion", format!("success was decided while tasks were still waiting to run (trace {:?})", t)));
        }
    }
    if prop == "C03" {
        for i in 0..n {
            for pass in [1u8, 2] {
                let c = idx_all(t, &format!("B pp:{}:{}", src_name(i), pass)).len();
                if c > 1 {
                    out.push(fnd("processed-twice", format!("{} pass {} ran {} times (trace {:?})", src_name(i), pass, c, t)));
                }
            }
            if ok && req.contains(&i) {
                let c = idx_all(t, &format!("E pp:{}:{}", src_name(i), final_pass(g, i))).len();
                if c != 1 {
                    out.push(fnd("not-completed-once", format!("{} completed {} times in a successful run (trace {:?})", src_name(i), c, t)));
                }
                if is_build && o.outs[i].is_none() {
                    out.push(fnd("output-missing", format!("{} missing after success", out_name(i))));
                }
            }
            if matches!(case.proj.style, Style::Marker | Style::DupMarker | Style::MarkerKillOnce) && case.mode != Mode::Clean {
                let m = o.markers[i];
                let limit = 1;
                if m > limit {
                    out.push(fnd("command-ran-twice", format!("command of {} executed {} times (trace {:?})", src_name(i), m, t)));
                }
                if ok && req.contains(&i) && m != 1 {
                    out.push(fnd("command-count", format!("command of {} executed {} times in a successful run", src_name(i), m)));
                }
            }
        }
    }
    out
}

pub fn names(s: &BTreeSet<usize>) -> Vec<&'static str> {
    s.iter().map(|&i| NAMES[i]).collect()
}

pub fn first_lines(s: &str, n: usize) -> String {
    s.lines().take(n).collect::<Vec<_>>().join(" / ")
}

pub fn subsets_nonempty(n: usize) -> Vec<Vec<usize>> {
    (1..(1u32 << n)).map(|m| (0..n).filter(|i| m >> i & 1 == 1).collect()).collect()
}

// ---------------------------------------------------------------- the three property runs

pub struct Plan {
    pub cases: Vec<Case>,
}

fn sel_cases(proj: &Proj, pres: &[Pre], modes: &[Mode], subsets: bool) -> Vec<Case> {
    let n = proj.g.n;
    let mut sels: Vec<(Vec<String>, Vec<usize>)> = vec![(vec![".".to_string()], (0..n).collect())];
    if subsets {
        for s in subsets_nonempty(n) {
            sels.push((s.iter().map(|&i| out_name(i)).collect(), s));
        }
    }
    let mut v = vec![];
    for (inputs, roots) in sels {
        for &pre in pres {
            for mode in modes {
                let pre = if *mode == Mode::Verify { Pre::Built } else { pre };
                if *mode == Mode::Verify && pres.len() > 1 && pre != pres[0] && false {
                    continue;
                }
                v.push(Case {
                    proj: proj.clone(),
                    inputs: inputs.clone(),
                    roots: roots.clone(),
                    pre,
                    mode: mode.clone(),
                    threads: 0,
                    extra: Tree::new(),
                    recursive: false,
                });
            }
        }
    }
    // verify ignores pre: dedupe
    let mut seen = BTreeSet::new();
    v.retain(|c| seen.insert(c.describe()));
    v
}

fn layout_cases(g: &Graph, style: Style) -> Vec<Case> {
    LAYOUT.with(|l| l.set(true));
    let proj = Proj { g: *g, style, layout: true, err: None };
    let n = g.n;
    let mut v = vec![];
    let mk = |inputs: Vec<String>, roots: Vec<usize>, recursive: bool| Case { proj: proj.clone(), inputs, roots, pre: Pre::Stale, mode: Mode::Build, threads: 0, extra: Tree::new(), recursive };
    v.push(mk(vec![".".into()], (0..n).collect(), true));
    v.push(mk(vec![out_name(0)], vec![0], false));
    v.push(mk((0..n).rev().map(src_name).collect(), (0..n).collect(), false));
    LAYOUT.with(|l| l.set(false));
    v
}

fn alias_cases(proj: &Proj, thorough: bool) -> Vec<Case> {
    // duplicates and aliases of file a (index 0), C03
    let mut v = vec![];
    let mk = |inputs: Vec<&str>, roots: Vec<usize>, extra: Tree, recursive: bool| Case {
        proj: proj.clone(),
        inputs: inputs.into_iter().map(String::from).collect(),
        roots,
        pre: Pre::Stale,
        mode: Mode::Build,
        threads: 0,
        extra,
        recursive,
    };
    let n = proj.g.n;
    let all: Vec<usize> = (0..n).collect();
    v.push(mk(vec!["a.txt", "a.txt"], vec![0], Tree::new(), false));
    v.push(mk(vec!["a.txt", "a.txt.txtpp"], vec![0], Tree::new(), false));
    let mut sub = Tree::new();
    sub.insert("sub".into(), Node::Dir);
    v.push(mk(vec!["./a.txt", "sub/../a.txt"], vec![0], sub.clone(), false));
    v.push(mk(vec![".", "a.txt"], all.clone(), Tree::new(), false));
    v.push(mk(vec![".", "."], all.clone(), Tree::new(), false));
    v.push(mk(vec![".", "sub/.."], all.clone(), sub.clone(), false));
    v.push(mk(vec!["a.txt", "ABS:a.txt.txtpp"], vec![0], Tree::new(), false));
    // a symlink to the source, named as input and found by scanning
    let mut link = Tree::new();
    link.insert("l.txt.txtpp".into(), Node::Link("a.txt.txtpp".into()));
    v.push(mk(vec!["l.txt", "a.txt"], vec![0], link.clone(), false));
    v.push(mk(vec!["."], all.clone(), link, false));
    // a directory symlink to the project directory itself, non-recursive: scanned as a second name of the same directory
    let mut dl = Tree::new();
    dl.insert("sub".into(), Node::Dir);
    dl.insert("sub/back".into(), Node::Link("..".into()));
    v.push(mk(vec![".", "sub/back"], all.clone(), dl.clone(), false));
    if thorough || n <= 2 {
        // recursive scan through a directory symlink that aliases an ancestor
        v.push(mk(vec!["."], all.clone(), dl, true));
    }
    // the sources are reached ONLY through symbolic links found by scanning: a directory of file links ...
    let mut only_links = Tree::new();
    only_links.insert("links".into(), Node::Dir);
    for i in 0..n {
        only_links.insert(format!("links/{}.txt.txtpp", NAMES[i]), Node::Link(format!("../{}.txt.txtpp", NAMES[i])));
    }
    v.push(mk(vec!["links"], all.clone(), only_links, false));
    // a link with a source name whose target has none (the run fails; it must still end): named, scanned, and next to real work
    let mut bad = Tree::new();
    bad.insert("tpl/z.in".into(), Node::File(b"z\n".to_vec()));
    bad.insert("z.txt.txtpp".into(), Node::Link("tpl/z.in".into()));
    v.push(mk(vec!["z.txt"], vec![], bad.clone(), false));
    v.push(mk(vec!["."], all.clone(), bad.clone(), false));
    v.push(mk(vec!["a.txt", "z.txt.txtpp"], vec![0], bad, false));
    // ... and a directory link to the project directory inside an otherwise empty directory, scanned recursively
    let mut dir_link = Tree::new();
    dir_link.insert("outer".into(), Node::Dir);
    dir_link.insert("outer/proj".into(), Node::Link("..".into()));
    if n <= 2 || (thorough && n <= 3) {
        v.push(mk(vec!["outer"], all.clone(), dir_link, true));
    }
    v
}

pub fn plan(prop: &str, thorough: bool) -> Vec<Case> {
    let mut cases = vec![];
    let mut graphs: Vec<Graph> = vec![];
    for n in 1..=3 {
        if thorough {
            graphs.extend(all_graphs(n));
        } else {
            graphs.extend(iso_classes(n));
        }
    }
    let g4: Vec<Graph> = if thorough { iso_classes(4) } else { named_4().into_iter().map(|x| x.1).collect() };
    match prop {
        "C02" => {
            for g in graphs.iter().filter(|g| g.acyclic()) {
                let styles: &[Style] = if thorough { &[Style::Include, Style::After, Style::Mixed, Style::NoTail, Style::Dup] } else { &[Style::Include, Style::After, Style::NoTail, Style::Dup] };
                for &style in styles {
                    if style == Style::Mixed && g.edges().len() < 2 {
                        continue;
                    }
                    if (style == Style::NoTail || style == Style::Dup) && g.edges().is_empty() {
                        continue;
                    }
                    let proj = Proj { g: *g, style, layout: false, err: None };
                    let (pres, modes): (&[Pre], Vec<Mode>) = if thorough {
                        (&[Pre::Stale, Pre::Absent], vec![Mode::Build, Mode::InMemoryBuild, Mode::Verify])
                    } else if style == Style::Include {
                        (&[Pre::Stale], vec![Mode::Build, Mode::InMemoryBuild])
                    } else {
                        (&[Pre::Stale], vec![Mode::Build])
                    };
                    cases.extend(sel_cases(&proj, pres, &modes, true));
                }
            }
            for g in g4.iter().filter(|g| g.acyclic()) {
                let proj = Proj { g: *g, style: Style::Include, layout: false, err: None };
                let (pres, modes): (&[Pre], Vec<Mode>) =
                    if thorough { (&[Pre::Stale, Pre::Absent], vec![Mode::Build]) } else { (&[Pre::Stale], vec![Mode::Build]) };
                cases.extend(sel_cases(&proj, pres, &modes, true));
                if !g.edges().is_empty() {
                    // the last dependency directive is the last line of the file: directory input only at 4 files
                    let proj = Proj { g: *g, style: Style::NoTail, layout: false, err: None };
                    cases.extend(sel_cases(&proj, &[Pre::Stale], &[Mode::Build], !thorough));
                }
            }
            for g in graphs.iter().filter(|g| g.acyclic() && g.n == 3 && !g.edges().is_empty()) {
                cases.extend(layout_cases(g, Style::Include));
                cases.extend(layout_cases(g, Style::After));
            }
            // dependencies spelled with absolute paths
            for g in graphs.iter().filter(|g| g.acyclic() && !g.edges().is_empty() && g.n <= 3 && (thorough || g.canonical() == g.adj)) {
                let proj = Proj { g: *g, style: Style::AbsInclude, layout: false, err: None };
                cases.extend(sel_cases(&proj, &[Pre::Stale], &[Mode::Build, Mode::InMemoryBuild], true));
            }
            // every output path is a symbolic link into another directory
            for g in graphs.iter().filter(|g| g.acyclic() && !g.edges().is_empty() && g.n <= 3) {
                for style in [Style::Include, Style::After] {
                    let proj = Proj { g: *g, style, layout: false, err: None };
                    cases.extend(sel_cases(&proj, &[Pre::StaleLink], &[Mode::Build, Mode::InMemoryBuild], true));
                }
            }
            if thorough {
                // five files: every isomorphism class of DAGs, directory input and the first file by name
                for g in dag_classes(5) {
                    let proj = Proj { g, style: Style::Include, layout: false, err: None };
                    let mut cs = sel_cases(&proj, &[Pre::Stale], &[Mode::Build], true);
                    cs.retain(|c| c.inputs.len() == 1);
                    cases.extend(cs);
                }
            }
        }
        "C03" => {
            // a failing file somewhere in the graph, unsaturated and single-thread pools: the run must still end
            for g in graphs.iter().filter(|g| g.n >= 2 && (thorough || g.canonical() == g.adj)).chain(g4.iter().filter(|_| true)) {
                if g.n == 4 && g.edges().len() > if thorough { 4 } else { 3 } {
                    continue;
                }
                for k in 0..g.n {
                    for threads in [0usize, 1] {
                        let proj = Proj { g: *g, style: Style::Marker, layout: false, err: Some(k) };
                        cases.push(Case { proj, inputs: vec![".".into()], roots: (0..g.n).collect(), pre: Pre::Stale, mode: Mode::Build, threads, extra: Tree::new(), recursive: false });
                    }
                }
            }
            // files spread over directories, all three source-name shapes, relative include paths with ../
            for g in graphs.iter().filter(|g| g.n == 3 && (thorough || g.canonical() == g.adj)) {
                cases.extend(layout_cases(g, Style::Marker));
            }
            for g in graphs.iter() {
                let proj = Proj { g: *g, style: Style::Marker, layout: false, err: None };
                let modes = if thorough { vec![Mode::Build, Mode::Verify, Mode::InMemoryBuild] } else { vec![Mode::Build] };
                cases.extend(sel_cases(&proj, &[Pre::Stale], &modes, true));
                if thorough || g.canonical() == g.adj {
                    cases.extend(alias_cases(&proj, thorough));
                }
            }
            // commands whose shell dies by a signal the first time it runs: the run fails, nothing is run twice
            for g in graphs.iter().filter(|g| g.n <= 2 && (thorough || g.canonical() == g.adj)) {
                let proj = Proj { g: *g, style: Style::MarkerKillOnce, layout: false, err: None };
                cases.extend(sel_cases(&proj, &[Pre::Stale], &[Mode::Build], false));
            }
            // every dependency listed twice (multi-edges in the dependency lists)
            for g in graphs.iter().chain(g4.iter()).filter(|g| !g.edges().is_empty() && (thorough || (g.n < 4 && g.canonical() == g.adj) || (g.n == 4 && g.edges().len() <= 3))) {
                let proj = Proj { g: *g, style: Style::DupMarker, layout: false, err: None };
                cases.extend(sel_cases(&proj, &[Pre::Stale], &[Mode::Build], thorough && g.n < 4));
            }
            for g in g4.iter() {
                let proj = Proj { g: *g, style: Style::Marker, layout: false, err: None };
                cases.extend(sel_cases(&proj, &[Pre::Stale], &[Mode::Build], thorough));
                if !thorough {
                    // aliases that scan the directory twice multiply the schedule count: 4-file graphs get the file aliases only
                    cases.extend(alias_cases(&proj, false).into_iter().filter(|c| !c.inputs.contains(&".".to_string())));
                }
            }
        }
        "C05" => {
            for g in graphs.iter() {
                let proj = Proj { g: *g, style: Style::Include, layout: false, err: None };
                let modes = if thorough || g.n <= 2 { vec![Mode::Build, Mode::InMemoryBuild, Mode::Verify] } else { vec![Mode::Build, Mode::Verify] };
                cases.extend(sel_cases(&proj, &[Pre::Stale], &modes, true));
            }
            for g in g4.iter() {
                let proj = Proj { g: *g, style: Style::Include, layout: false, err: None };
                cases.extend(sel_cases(&proj, &[Pre::Stale], &[Mode::Build], true));
            }
            // files spread over directories, all three source-name shapes (the infix one with a dotted stem)
            for g in graphs.iter().filter(|g| g.n == 3 && !g.edges().is_empty() && (thorough || g.canonical() == g.adj)) {
                cases.extend(layout_cases(g, Style::Include));
            }
            // every dependency listed twice (multi-edges: the last entry of a dependency list repeats an earlier one)
            for g in graphs.iter().chain(g4.iter()).filter(|g| !g.edges().is_empty() && (thorough || g.n < 4 || g.edges().len() <= 3)) {
                let proj = Proj { g: *g, style: Style::Dup, layout: false, err: None };
                cases.extend(sel_cases(&proj, &[Pre::Stale], &[Mode::Build], g.n < 4));
            }
        }
        _ => unreachable!(),
    }
    // resolve ABS: markers lazily (needs the scratch path) — done in run
    cases
}

fn resolve_abs(case: &Case, env: &CaseEnv) -> Case {
    let mut c = case.clone();
    for i in c.inputs.iter_mut() {
        if let Some(rest) = i.strip_prefix("ABS:") {
            *i = env.base().join(rest).to_string_lossy().to_string();
        }
    }
    c
}

pub fn run_property(prop: &str, tier: &str) -> i32 {
    let rep = Report::new(prop, tier);
    let thorough = rep.thorough();
    let now = std::time::SystemTime::now().duration_since(std::time::UNIX_EPOCH).map(|d| d.as_secs()).unwrap_or(0);
    DEADLINE.store(now + rep.cap_s() as u64 + 15, std::sync::atomic::Ordering::Relaxed);
    let cases = plan(prop, thorough);
    rep.set("cases_planned", json!(cases.len()));
    rep.assume("std::sync::mpsc and the threadpool crate are correct (their internals are not interleaved)");
    rep.assume("task bodies of one run touch disjoint files unless an explored order shows otherwise (DESIGN 4.5)");
    rep.assume("symmetry: at 4 files one labelled representative per isomorphism class (checked at <=3 files in the thorough tier by running all labelled graphs)");
    sharded_dyn(&rep, par_threads(), |_shard, _nshards, next, rep| {
        loop {
            let ci = next();
            if ci >= cases.len() {
                break;
            }
            let case0 = &cases[ci];
            if rep.over_cap() {
                rep.note_cap(&format!("wall-clock cap {}s reached; cases are ordered smallest graph first", rep.cap_s()));
                break;
            }
            run_case(prop, rep, case0, ci);
        }
    });
    rep.set(
        "bounds",
        json!(if thorough {
            if prop == "C02" { "all labelled DAGs on 1-3 files; one representative per isomorphism class of DAGs on 4 and on 5 files (5: directory input and single-file inputs); all task completion orders" } else { "all labelled digraphs with loops on 1-3 files; one representative per isomorphism class on 4 files; all task completion orders" }
        } else {
            "isomorphism classes on 1-3 files; six named 4-file graphs; all task completion orders"
        }),
    );
    if rep.get("cases_with_real_choices") == 0 {
        rep.machinery("no case offered a scheduling choice: exploration would be vacuous".into());
    }
    extra_checks(prop, &rep);
    if prop != "C02" {
        model_phase(prop, &rep);
    }
    rep.finish()
}

fn run_case(prop: &str, rep: &Report, case0: &Case, ci: usize) {
    LAYOUT.with(|l| l.set(case0.proj.layout));
    let env = CaseEnv::new();
    let case = resolve_abs(case0, &env);
    let mut outcomes: BTreeMap<String, usize> = BTreeMap::new();
    let mut nodes: BTreeSet<Vec<usize>> = BTreeSet::new();
    let mut first: Option<Obs> = None;
    let mut trans = 0usize;
    let mut interesting = false;
    let res = explore_case(&env, &case, Explore::Reduced, 200_000, |o| {
        *outcomes.entry(o.outcome_key()).or_insert(0) += 1;
        let ch = o.run.choices();
        for k in 0..=ch.len() {
            nodes.insert(ch[..k].to_vec());
        }
        trans += o.run.trace.iter().filter(|e| e.starts_with("B ")).count();
        if !o.run.decisions.is_empty() {
            interesting = true;
        }
        for f in check_obs(prop, &case, o) {
            rep.violate(
                &f.sig,
                format!("{} :: schedule {:?} :: {}", case.describe(), o.run.choices(), f.msg),
                json!({"case": case.to_json(), "schedule": o.run.choices(), "finding": f.sig}),
            );
        }
        // bind the abstract protocol model to the code: same choices, same begin/end events, same verdict
        // (verify of a cyclic project fails early on a missing output: another protocol path, not modelled)
        let verify_cyclic = case.mode == Mode::Verify && case.proj.g.cyc().intersection(&case.required()).next().is_some();
        if case.extra.is_empty() && case.threads == 0 && o.run.clean() && !verify_cyclic && !case.proj.layout && case.proj.err.is_none() && case.proj.style != Style::MarkerKillOnce {
            let scan = case.inputs == ["."];
            let plain = scan || case.inputs.iter().all(|i| (0..case.proj.g.n).any(|k| out_name(k) == *i));
            if plain {
                let roots: Vec<usize> = if scan { vec![] } else { case.roots.clone() };
                let impl_ev: Vec<String> = o
                    .run
                    .trace
                    .iter()
                    .filter(|e| e.starts_with("B ") || e.starts_with("E "))
                    .map(|e| if e[2..].starts_with("scan:") { format!("{}scan:", &e[..2]) } else { e.clone() })
                    .collect();
                match crate::smodel::replay_on_model(&case.proj.g, &roots, scan, &o.run.choices()) {
                    Ok((ev, v)) => {
                        let same_v = match (&o.run.verdict, v) {
                            (Verdict::Ok, crate::smodel::MVerdict::Ok) | (Verdict::Err(_), crate::smodel::MVerdict::Err) => true,
                            _ => false,
                        };
                        if ev == impl_ev && same_v {
                            rep.add("model_traces_conformant", 1);
                        } else {
                            rep.add("model_traces_divergent", 1);
                            rep.set("model_divergence_example", json!({"case": case.describe(), "schedule": o.run.choices(), "implementation": impl_ev, "model": ev, "model_verdict": format!("{:?}", v), "implementation_verdict": o.run.verdict.kind()}));
                        }
                    }
                    Err(e) => {
                        rep.add("model_traces_divergent", 1);
                        rep.set("model_divergence_example", json!({"case": case.describe(), "schedule": o.run.choices(), "error": e}));
                    }
                }
            }
        }
        if first.is_none() {
            first = Some(o.clone());
        }
    });
    match res {
        Err(m) => rep.machinery(m),
        Ok((runs, complete)) => {
            if !complete {
                rep.note_cap(&format!("schedule cap hit in {}", case.describe()));
            }
            if std::env::var("VERIF_DEBUG").is_ok() && runs > 1000 {
                eprintln!("DEBUG {} runs for {}", runs, case.describe());
            }
            rep.st(nodes.len());
            rep.tr(trans);
            rep.tv(runs);
            rep.add("cases_explored", 1);
            rep.max("max_schedules_per_case", runs as u64);
            if interesting {
                rep.add("cases_with_real_choices", 1);
            }
            rep.add_in("cases_by_distinct_outcomes", &outcomes.len().to_string(), 1);
            rep.add_in("cases_by_files", &case.proj.g.n.to_string(), 1);
            rep.add_in("schedules_by_files", &case.proj.g.n.to_string(), runs as u64);
            // determinism self-test: the canonical schedule twice
            // (with a saturated pool the order in which the coordinator submits tasks -- HashSet / readdir order --
            // decides which task gets the single worker: not a choice of the schedule, so no self-test there)
            if let Some(f0) = first.as_ref().filter(|_| case.threads == 0) {
                let again = env.run_one(&case, &[], Explore::Reduced);
                // spawn order ("S" events) follows HashSet / readdir order and is not a choice of the schedule
                let exec = |t: &Vec<String>| t.iter().filter(|e| !e.starts_with("S ")).cloned().collect::<Vec<_>>();
                if exec(&again.run.trace) != exec(&f0.run.trace) || again.outcome_key() != f0.outcome_key() {
                    rep.machinery(format!(
                        "nondeterministic replay of the canonical schedule in {}: {:?} vs {:?}",
                        case.describe(),
                        f0.run.trace,
                        again.run.trace
                    ));
                }
            }
            // outcome must not depend on the schedule where the property says so
            let deterministic_expected = match prop {
                "C02" => true,
                "C03" | "C05" => case.proj.err.is_none() && case.proj.g.cyc().intersection(&case.required()).next().is_none(),
                _ => false,
            };
            if deterministic_expected && outcomes.len() > 1 {
                rep.violate(
                    "schedule-dependent-outcome",
                    format!("{} :: {} distinct outcomes over {} schedules: {:?}", case.describe(), outcomes.len(), runs, outcomes.keys().take(3).collect::<Vec<_>>()),
                    json!({"case": case.to_json(), "schedule": [], "finding": "schedule-dependent-outcome", "all_schedules": true}),
                );
            }
            if ci % 397 == 0 {
                if let Some(f0) = &first {
                    rep.sample(json!({"case": case.describe(), "schedules": runs, "canonical_trace": f0.run.trace, "verdict": f0.run.verdict.kind()}));
                }
            }
        }
    }
}

/// The protocol model alone, on ALL labelled digraphs with 5 files (thorough) or with <= 4 edges (quick),
/// directory input and each single file as input. Only claimed while every implementation schedule above
/// conformed to the model. A model counterexample is confirmed on the real coordinator before it is reported.
fn model_phase(prop: &str, rep: &Report) {
    if rep.get("model_traces_divergent") > 0 || rep.get("model_traces_conformant") == 0 {
        rep.set("protocol_model", json!("NOT USED: the implementation's schedules did not all conform to the abstract model (see model_divergence_example); the 5-file exploration is dropped, the verdict rests on the implementation-level exploration only"));
        println!("NOTE: the abstract protocol model no longer describes the coordinator; 5-file model exploration skipped");
        return;
    }
    if rep.over_cap() {
        return;
    }
    let thorough = rep.thorough();
    let n = 5usize;
    let total: u64 = 1 << (n * n);
    let max_edges = if thorough { 25 } else { 4 };
    let blocks: u64 = 4096;
    let per = total / blocks;
    sharded_dyn(rep, par_threads(), |_k, _n, next, rep| {
        let mut stats = crate::smodel::ModelStats { states: 0, transitions: 0, terminals: 0 };
        let mut graphs = 0u64;
        loop {
            let b = next() as u64;
            if b >= blocks {
                break;
            }
            if rep.over_cap() {
                rep.note_cap("wall-clock cap in the 5-file protocol-model exploration");
                break;
            }
            for adj in (b * per)..((b + 1) * per) {
                let adj = adj as u32;
                if adj.count_ones() > max_edges {
                    continue;
                }
                let g = Graph { n, adj };
                graphs += 1;
                let mut sels: Vec<(Vec<usize>, bool)> = vec![(vec![], true)];
                // C05 (thorough) takes the by-name selection on every graph; C03 shares the wall-clock budget with its
                // failing-file dimension and takes it up to 10 edges (the directory selection is on every graph)
                if (thorough && (prop != "C03" || adj.count_ones() <= 10)) || adj.count_ones() <= 3 {
                    sels.push((vec![0], false));
                }
                for (roots, scan) in sels {
                    if let Some(msg) = crate::smodel::check_model(&g, &roots, scan, &mut stats) {
                        // confirm on the real coordinator
                        let case = Case {
                            proj: Proj { g, style: if prop == "C03" { Style::Marker } else { Style::Include }, layout: false, err: None },
                            inputs: if scan { vec![".".into()] } else { vec![out_name(0)] },
                            roots: if scan { (0..n).collect() } else { roots.clone() },
                            pre: Pre::Stale,
                            mode: Mode::Build,
                            threads: 0,
                            extra: Tree::new(),
                            recursive: false,
                        };
                        let env = CaseEnv::new();
                        let mut confirmed = false;
                        let _ = explore_case(&env, &case, Explore::Reduced, 20_000, |o| {
                            for f in check_obs(prop, &case, o) {
                                confirmed = true;
                                rep.violate(
                                    &f.sig,
                                    format!("{} :: schedule {:?} :: {} (found first on the protocol model: {msg})", case.describe(), o.run.choices(), f.msg),
                                    json!({"case": case.to_json(), "schedule": o.run.choices(), "finding": f.sig}),
                                );
                            }
                        });
                        if !confirmed {
                            rep.machinery(format!("protocol model reports '{msg}' for {} but the real coordinator shows no violation", case.describe()));
                        }
                    }
                }
            }
        }
        rep.set("model_selections", json!(if !thorough { "directory input on graphs with <= 4 edges; first file by name with <= 3 edges" } else if prop == "C03" { "directory input on all 2^25 labelled 5-file digraphs; first file by name on those with <= 10 edges" } else { "directory input and first file by name on all 2^25 labelled 5-file digraphs" }));
        rep.add("model_5_file_graphs", graphs);
        rep.add("model_states", stats.states as u64);
        rep.add("model_transitions", stats.transitions as u64);
        rep.add("model_terminal_states", stats.terminals as u64);
        rep.st(stats.states);
        rep.tr(stats.transitions);
    });
    rep.set(
        "protocol_model",
        json!(format!(
            "abstract coordinator model (harness/src/smodel.rs): every implementation schedule above was replayed on it with identical begin/end events and verdict; explored alone, explicit-state with de-duplication, on all labelled digraphs with 5 files{} (directory input{})",
            if thorough { "" } else { " and at most 4 edges" },
            if thorough { " and the first file by name" } else { "; single-file input up to 3 edges" }
        )),
    );
}

/// un-reduced vs reduced comparison and thread-count subsumption on small graphs
fn extra_checks(prop: &str, rep: &Report) {
    let thorough = rep.thorough();
    let mut graphs: Vec<Graph> = vec![];
    for n in 1..=(if thorough { 3 } else { 2 }) {
        graphs.extend(iso_classes(n));
    }
    if !thorough {
        graphs.push(Graph::from_edges(3, &[(0, 1), (1, 2)]));
        graphs.push(Graph::from_edges(3, &[(0, 1), (0, 2)]));
        graphs.push(Graph::from_edges(3, &[(0, 1), (1, 0), (2, 0)]));
    }
    let style = if prop == "C03" { Style::Marker } else { Style::Include };
    let graphs: Vec<Graph> = graphs.into_iter().filter(|g| prop != "C02" || g.acyclic()).collect();
    sharded_dyn(rep, par_threads(), |_shard, _nshards, next, rep| {
    loop {
        let gi = next();
        if gi >= graphs.len() {
            break;
        }
        let g = &graphs[gi];
        if rep.over_cap() {
            rep.note_cap("cap reached during the un-reduced comparison");
            return;
        }
        let n = g.n;
        let proj = Proj { g: *g, style, layout: false, err: None };
        let all: Vec<usize> = (0..n).collect();
        for (inputs, roots) in [(vec![".".to_string()], all.clone()), (all.iter().map(|&i| out_name(i)).collect(), all.clone())] {
            let case = Case { proj: proj.clone(), inputs, roots, pre: Pre::Stale, mode: Mode::Build, threads: 0, extra: Tree::new(), recursive: false };
            let env = CaseEnv::new();
            let mut red = BTreeSet::new();
            let mut unred = BTreeSet::new();
            let r1 = explore_case(&env, &case, Explore::Reduced, 100_000, |o| {
                red.insert(o.outcome_key());
            });
            let r2 = explore_case(&env, &case, Explore::Unreduced { early_idle_bound: 1 }, 400_000, |o| {
                unred.insert(o.outcome_key());
                for f in check_obs(prop, &case, o) {
                    rep.violate(
                        &f.sig,
                        format!("{} :: un-reduced schedule {:?} :: {}", case.describe(), o.run.choices(), f.msg),
                        json!({"case": case.to_json(), "schedule": o.run.choices(), "finding": f.sig, "explore": "unreduced"}),
                    );
                }
            });
            match (r1, r2) {
                (Ok(_), Ok((runs, complete))) => {
                    rep.add("unreduced_runs_compared", runs as u64);
                    rep.tv(runs);
                    if complete && red != unred {
                        rep.machinery(format!(
                            "reduction unsound for {}: reduced outcomes {:?} vs un-reduced {:?}",
                            case.describe(),
                            red,
                            unred
                        ));
                    }
                    if !complete {
                        rep.note_cap(&format!("un-reduced run cap in {}", case.describe()));
                    }
                }
                (Err(m), _) | (_, Err(m)) => rep.machinery(m),
            }
            // thread counts 1 and 2: outcomes must be among those of the unsaturated pool
            for threads in [1usize, 2] {
                let mut c2 = case.clone();
                c2.threads = threads;
                let mut outs = BTreeSet::new();
                match explore_case(&env, &c2, Explore::Reduced, 100_000, |o| {
                    outs.insert(o.outcome_key());
                    for f in check_obs(prop, &c2, o) {
                        rep.violate(
                            &f.sig,
                            format!("{} :: schedule {:?} :: {}", c2.describe(), o.run.choices(), f.msg),
                            json!({"case": c2.to_json(), "schedule": o.run.choices(), "finding": f.sig}),
                        );
                    }
                }) {
                    Ok((runs, _)) => {
                        rep.add("saturated_pool_runs_threads_1_2", runs as u64);
                        rep.tv(runs);
                        if !outs.is_subset(&red) {
                            rep.machinery(format!("thread-count subsumption fails for {}: {:?} not within {:?}", c2.describe(), outs, red));
                        }
                    }
                    // with a saturated pool the set of gated tasks follows the HashSet order in which
                    // dependers were re-submitted, which a prefix cannot pin down: tolerated, not a verdict
                    Err(_) => {
                        rep.add("saturated_pool_cases_cut_by_hash_order", 1);
                    }
                }
            }
        }
    }
    });
}

/// Re-execute one replay file for engine S; returns true if it still fails
pub fn replay(prop: &str, v: &Value) -> bool {
    let case0 = Case::from_json(&v["case"]);
    LAYOUT.with(|l| l.set(case0.proj.layout));
    let env = CaseEnv::new();
    let case = resolve_abs(&case0, &env);
    let explore = if v["explore"].as_str() == Some("unreduced") { Explore::Unreduced { early_idle_bound: 1 } } else { Explore::Reduced };
    if v["all_schedules"].as_bool() == Some(true) {
        let mut outcomes = BTreeSet::new();
        let _ = explore_case(&env, &case, explore, 100_000, |o| {
            outcomes.insert(o.outcome_key());
        });
        println!("replay: {} :: distinct outcomes {:?}", case.describe(), outcomes);
        return outcomes.len() > 1;
    }
    let prefix: Vec<usize> = v["schedule"].as_array().map(|a| a.iter().map(|x| x.as_u64().unwrap() as usize).collect()).unwrap_or_default();
    let o = env.run_one(&case, &prefix, explore);
    println!("replay: {}", case.describe());
    println!("  schedule {:?}", prefix);
    println!("  verdict  {} {}", o.run.verdict.kind(), first_lines(&o.run.verdict.detail(), 4));
    println!("  trace    {:?}", o.run.trace);
    for i in 0..case.proj.g.n {
        println!("  {} = {:?} (oracle {:?})", out_name(i), o.outs[i].as_ref().map(|b| show(b)), case.proj.oracle(i));
    }
    let f = check_obs(prop, &case, &o);
    for x in &f {
        println!("  FINDING [{}] {}", x.sig, x.msg);
    }
    !f.is_empty()
}
