//! C12 (line endings), C13 (trailing-newline option), C16 (pass-through and write inertness):
//! further oracles on bounded-exhaustive sources, all through the real `preprocess`.
#![allow(dead_code)]

use crate::elines::*;
use crate::model::*;
use crate::util::*;
use serde_json::json;
use std::collections::BTreeSet;
use txtpp::Mode;

fn rj(prop: &str, src: &[u8], extra: serde_json::Value) -> serde_json::Value {
    json!({"engine": "E-lines2", "prop": prop, "source_b64": b64(src), "source": show(src), "extra": extra})
}

// ---------------------------------------------------------------- C13

fn c13_pair(rep: &Report, b: &Bench, src: &[u8]) {
    let on = b.run(src, Mode::Build, true, true);
    let off = b.run(src, Mode::Build, true, false);
    rep.tv(2);
    c13_compare(rep, b, src, &on, &off, "preprocess");
    if src.iter().filter(|&&c| c == b'\n').count() <= 2 {
        // the option means the same in the only-if-needed mode and in the final pass of a file with dependencies
        let on = b.run(src, Mode::InMemoryBuild, true, true);
        let off = b.run(src, Mode::InMemoryBuild, true, false);
        c13_compare(rep, b, src, &on, &off, "in-memory build");
        let on = b.run(src, Mode::Build, false, true);
        let off = b.run(src, Mode::Build, false, false);
        c13_compare(rep, b, src, &on, &off, "final pass");
        rep.tv(4);
        // switching the option between two runs takes effect (the second run is the only-if-needed mode)
        let on_ref = b.run(src, Mode::Build, true, true);
        let off_ref = b.run(src, Mode::Build, true, false);
        for (first_tn, second) in [(true, &off_ref), (false, &on_ref)] {
            let _ = b.run(src, Mode::Build, true, first_tn);
            let r = b.run_no_reset(Mode::InMemoryBuild, true, !first_tn);
            rep.tv(2);
            if r.v.kind() != second.v.kind() || (r.v == V::Ok && r.out != second.out) {
                rep.violate(
                    "option-switch-ignored",
                    format!("source {:?}: built with the option {}, then --needed with it {}: output {:?}, a build with that setting writes {:?}", show(src), if first_tn { "on" } else { "off" }, if first_tn { "off" } else { "on" }, r.out.as_ref().map(|x| show(x)), second.out.as_ref().map(|x| show(x))),
                    rj("C13", src, json!({"switch": first_tn})),
                );
            }
        }
    }
}

fn c13_compare(rep: &Report, b: &Bench, src: &[u8], on: &ImplRes, off: &ImplRes, how: &str) {
    let le = first_le(src);
    if on.v.kind() != off.v.kind() {
        rep.violate("verdict-depends-on-option", format!("[{how}] source {:?}: verdict {} with the option, {} without", show(src), on.v.kind(), off.v.kind()), rj("C13", src, json!({})));
        return;
    }
    if let V::Panic(p) = &on.v {
        rep.violate("panic", format!("[{how}] source {:?}: panic {p}", show(src)), rj("C13", src, json!({})));
        return;
    }
    if on.v != V::Ok {
        rep.add("pairs_failing_builds", 1);
        return;
    }
    let (o1, o0) = (on.out.clone().unwrap_or_default(), off.out.clone().unwrap_or_default());
    if on.tmp != off.tmp {
        rep.violate("temp-depends-on-option", format!("[{how}] source {:?}: temp target {:?} with the option, {:?} without", show(src), on.tmp.as_ref().map(|x| show(x)), off.tmp.as_ref().map(|x| show(x))), rj("C13", src, json!({})));
    }
    let mut plus = o0.clone();
    plus.extend_from_slice(le.as_bytes());
    if o1 != o0 && o1 != plus {
        rep.violate("more-than-one-line-ending", format!("[{how}] source {:?}: with the option {:?}, without {:?}", show(src), show(&o1), show(&o0)), rj("C13", src, json!({})));
        return;
    }
    if o1 == o0 {
        rep.add("pairs_equal", 1);
    } else {
        rep.add("pairs_differing_by_final_le", 1);
    }
    // sources that end with an ordinary text line
    if let Ok(mf) = b.model(src, true) {
        if let Ok(mf0) = b.model(src, false) {
            if mf0.outs[0] == mf.outs[0] {
                rep.add("model_pairs_equal", 1);
            } else {
                rep.add("model_pairs_differing", 1);
            }
        }
        if mf.ends_in_text {
            rep.add("pairs_ending_in_text", 1);
            let mut want_tail = mf.text_lines.last().cloned().unwrap_or_default().into_bytes();
            let want_off_tail = want_tail.clone();
            want_tail.extend_from_slice(le.as_bytes());
            if o1 != plus || !o1.ends_with(&want_tail) || !o0.ends_with(&want_off_tail) {
                rep.violate(
                    "final-text-line",
                    format!("[{how}] source {:?} ends with the text line {:?}: with the option {:?}, without {:?}", show(src), mf.text_lines.last(), show(&o1), show(&o0)),
                    rj("C13", src, json!({})),
                );
            }
        }
    }
}

pub fn run_c13(tier: &str) -> i32 {
    let rep = Report::new("C13", tier);
    let thorough = rep.thorough();
    let (l_core, l_run) = if thorough { (5, 3) } else { (3, 2) };
    let mut alpha: Vec<&str> = SIGMA_CORE.to_vec();
    alpha.extend(SIGMA_RUN);
    rep.set("bounds", json!(format!("every source of <= {l_core} lines over the core alphabet and <= {l_run} lines over core+run, x LF/CRLF x final newline, each built with the option on and off")));
    rep.assume("which sources 'end with an ordinary text line' is decided by the reference grammar of harness/src/model.rs");
    let help = helpers();
    sharded_dyn(&rep, par_threads(), |_k, _n, next, rep| {
        let b = Bench::new(&help);
        let stop = || rep.over_cap();
        let mut shapes: BTreeSet<String> = BTreeSet::new();
        for_each_seq(alpha.len(), l_core, next, &stop, &mut |seq| {
            let has_run = seq.iter().any(|&i| i >= SIGMA_CORE.len());
            if has_run && seq.len() > l_run {
                return;
            }
            let lines: Vec<&str> = seq.iter().map(|&i| alpha[i]).collect();
            rep.st(1);
            for crlf in [false, true] {
                for final_nl in [true, false] {
                    if lines.is_empty() && (!final_nl || crlf) {
                        continue;
                    }
                    let src = build_source(&lines, crlf, final_nl);
                    c13_pair(rep, &b, &src);
                    rep.add("pairs", 1);
                    rep.tr(1);
                }
            }
            // abstract shape of the ending: last symbol class x final newline
            if let Some(&l) = seq.last() {
                shapes.insert(format!("{}", l));
            }
            if seq.len() == 2 && seq[0] == 0 && seq[1] == 6 {
                rep.sample(json!({"source": show(&build_source(&lines, false, true)), "built": "with and without the option"}));
            }
        });
        if rep.over_cap() {
            rep.note_cap("wall-clock cap");
        }
        rep.set("set_model_steps", json!(shapes.iter().map(|s| format!("{s}:0")).collect::<Vec<_>>()));
    });
    finish_steps(&rep);
    // production CLI: -n must map to the option (sources of <= 1 line, <= 2 in thorough)
    let l_cli = if thorough { 2 } else { 1 };
    sharded_dyn(&rep, par_threads(), |_k, _n, next, rep| {
        let b = Bench::new(&help);
        let stop = || rep.over_cap();
        for_each_seq(SIGMA_CORE.len(), l_cli, next, &stop, &mut |seq| {
            let lines: Vec<&str> = seq.iter().map(|&i| SIGMA_CORE[i]).collect();
            for crlf in [false, true] {
                let src = build_source(&lines, crlf, true);
                let on = b.run(&src, Mode::Build, true, true);
                let off = b.run(&src, Mode::Build, true, false);
                for (flag, lib) in [(None, &on), (Some("-n"), &off)] {
                    b.reset(&src, None, None);
                    let mut args = vec!["-q", SRC];
                    if let Some(f) = flag {
                        args.insert(0, f);
                    }
                    let (code, to) = run_cli(&b.base, &args, &[], 20.0);
                    rep.tv(1);
                    rep.add("cli_runs", 1);
                    let out = std::fs::read(b.base.join(OUT)).ok();
                    let ok = code == 0;
                    if to || ok != (lib.v == V::Ok) || (ok && out != lib.out) {
                        rep.violate(
                            "cli-option-mapping",
                            format!("txtpp {:?} on source {:?}: exit {code} timeout={to} output {:?}; library with trailing_newline={} gives {} {:?}", args, show(&src), out.as_ref().map(|x| show(x)), flag.is_none(), lib.v.kind(), lib.out.as_ref().map(|x| show(x))),
                            rj("C13", &src, json!({"cli_args": args})),
                        );
                    }
                }
            }
        });
    });
    crate::eproj::c13_dependency_pairs(&rep);
    // the last chunk of the output is larger than a writer buffer (a long last line, a long directive output)
    {
        let b = Bench::new(&help);
        let lens: Vec<usize> = if thorough { vec![4096, 8190, 8191, 8192, 8193, 16384, 20000, 70000] } else { vec![8191, 8192, 8193, 20000] };
        for len in lens {
            let long = "y".repeat(len);
            for crlf in [false, true] {
                for final_nl in [true, false] {
                    for lines in [vec![long.as_str()], vec!["x", long.as_str()], vec!["x", "-TXTPP#write w", long.as_str()]] {
                        let src = build_source(&lines, crlf, final_nl);
                        c13_pair(&rep, &b, &src);
                        rep.add("long_last_line_pairs", 1);
                    }
                    let w = format!("-TXTPP#write {long}");
                    let src = build_source(&["x", w.as_str()], crlf, final_nl);
                    c13_pair(&rep, &b, &src);
                    rep.add("long_last_line_pairs", 1);
                }
            }
        }
    }
    if rep.get("model_pairs_differing") == 0 || rep.get("model_pairs_equal") == 0 || rep.get("pairs_ending_in_text") == 0 {
        rep.machinery("vacuous: the enumeration did not produce both kinds of pairs".into());
    }
    rep.finish()
}

// ---------------------------------------------------------------- C12

pub const SIGMA_12: [&str; 9] =
    ["x", "-TXTPP#include inc.txt", "-TXTPP#write w", "-v", "-TXTPP#temp t.out", "-TXTPP#tag T", "x T y", "-TXTPP#run cat cmd.txt", "+TXTPP#"];

fn scan_le(bytes: &[u8], crlf: bool) -> Option<String> {
    for i in 0..bytes.len() {
        if crlf {
            if bytes[i] == b'\n' && (i == 0 || bytes[i - 1] != b'\r') {
                return Some(format!("bare LF at byte {i}"));
            }
            if bytes[i] == b'\r' && bytes.get(i + 1) != Some(&b'\n') {
                return Some(format!("bare CR at byte {i}"));
            }
        } else if bytes[i] == b'\r' {
            return Some(format!("CR at byte {i}"));
        }
    }
    None
}

/// the same text with the other line ending (domain: CR only before LF)
fn flip_le(bytes: &[u8], crlf: bool) -> Vec<u8> {
    let t = String::from_utf8_lossy(bytes).to_string();
    if crlf {
        t.replace("\r\n", "\n").into_bytes()
    } else {
        t.replace("\r\n", "\n").replace('\n', "\r\n").into_bytes()
    }
}

/// History dimension of C12: the generated files already exist with the same line text and the OTHER line
/// ending (the source was converted between LF and CRLF since the last build): build / --needed must leave
/// only the first line's ending. Returns a description of the first foreign terminator found.
fn leftover_le_check(b: &Bench, src: &[u8], crlf: bool, out: &Option<Vec<u8>>, tmp: &Option<Vec<u8>>) -> Option<String> {
    for mode in [Mode::Build, Mode::InMemoryBuild] {
        b.reset(src, out.as_ref().map(|o| flip_le(o, crlf)).as_deref(), tmp.as_ref().map(|t| flip_le(t, crlf)).as_deref());
        let r = b.run_no_reset(mode.clone(), true, true);
        if r.v != V::Ok {
            return Some(format!("{:?} over generated files with the other line ending: {}", mode, r.v.kind()));
        }
        for (what, bytes) in [("output", &r.out), ("temp target", &r.tmp)] {
            if let Some(bytes) = bytes {
                if let Some(bad) = scan_le(bytes, crlf) {
                    return Some(format!("{:?} over generated files with the other line ending: {what} {:?} has {bad}", mode, show(bytes)));
                }
            }
        }
    }
    None
}

pub fn run_c12(tier: &str) -> i32 {
    let rep = Report::new("C12", tier);
    let thorough = rep.thorough();
    let (l_all, l_run) = if thorough { (5, 4) } else { (4, 3) };
    rep.set("alphabet", json!(SIGMA_12));
    rep.set("bounds", json!(format!("sources of <= {l_all} lines (<= {l_run} when a command is run) over 9 line shapes; every source line with its own terminator LF/CRLF (last line also none); included file in 4 line-ending variants; command output in 3; every uniformly terminated source also rebuilt (build, --needed) over generated files that hold the same text with the other line ending")));
    rep.assume("domain: CR occurs only immediately before LF");
    let inc_variants: [(&str, &str); 4] = [("lf", "p\nq\n"), ("crlf", "p\r\nq\r\n"), ("mixed", "p\r\nq\nr\r\n"), ("nofinal", "p\r\nq")];
    let cmd_variants: [(&str, &str); 3] = [("lf", "c\nd\n"), ("crlf", "c\r\nd\r\n"), ("mixed", "c\nd\r\ne\n")];
    sharded_dyn(&rep, par_threads(), |_k, _n, next, rep| {
        let b = Bench::new(&Tree::new());
        let stop = || rep.over_cap();
        let mut shapes = BTreeSet::new();
        for_each_seq(SIGMA_12.len(), l_all, next, &stop, &mut |seq| {
            if seq.is_empty() {
                return;
            }
            let has_inc = seq.contains(&1);
            let has_run = seq.contains(&7);
            if has_run && seq.len() > l_run {
                return;
            }
            let n = seq.len();
            rep.st(1);
            // terminators: bit i = CRLF for line i; last line additionally "none"
            for mask in 0..(1u32 << n) {
                for last_none in [false, true] {
                    if last_none && mask >> (n - 1) & 1 == 1 {
                        continue;
                    }
                    let mut src = Vec::new();
                    for (i, &s) in seq.iter().enumerate() {
                        src.extend_from_slice(SIGMA_12[s].as_bytes());
                        if i == n - 1 && last_none {
                        } else if mask >> i & 1 == 1 {
                            src.extend_from_slice(b"\r\n");
                        } else {
                            src.push(b'\n');
                        }
                    }
                    let crlf = first_le(&src) == "\r\n";
                    for (iname, inc) in inc_variants.iter().take(if has_inc { 4 } else { 1 }) {
                        for (cname, cmd) in cmd_variants.iter().take(if has_run { 3 } else { 1 }) {
                            std::fs::write(b.base.join("inc.txt"), inc).unwrap();
                            std::fs::write(b.base.join("cmd.txt"), cmd).unwrap();
                            let r = b.run(&src, Mode::Build, true, true);
                            rep.tv(1);
                            rep.tr(1);
                            rep.add("cases", 1);
                            match &r.v {
                                V::Ok => {
                                    rep.add("cases_built", 1);
                                    let mixed = mask != 0 && mask != (1 << n) - 1 || (has_inc && *iname != if crlf { "crlf" } else { "lf" }) || (has_run && *cname != if crlf { "crlf" } else { "lf" });
                                    if mixed {
                                        rep.add("cases_built_with_foreign_line_endings", 1);
                                    }
                                    shapes.insert(format!("{}:{}", crlf as u8, (has_inc as u8) | (has_run as u8) << 1 | (mixed as u8) << 2));
                                    let mut clean = true;
                                    for (what, bytes) in [("output", &r.out), ("temp target", &r.tmp)] {
                                        if let Some(bytes) = bytes {
                                            if let Some(bad) = scan_le(bytes, crlf) {
                                                clean = false;
                                                rep.violate(
                                                    "foreign-line-ending",
                                                    format!("source {:?} (first line {}), include={iname} command={cname}: {what} {:?} has {bad}", show(&src), if crlf { "CRLF" } else { "LF" }, show(bytes)),
                                                    rj("C12", &src, json!({"inc": inc, "cmd": cmd})),
                                                );
                                            }
                                        }
                                    }
                                    // leftovers of a build of the same text with the other line ending
                                    if clean && (mask == 0 || mask == (1 << n) - 1) && r.out.as_ref().map(|o| o.contains(&b'\n')).unwrap_or(false) {
                                        rep.add("cases_rebuilt_over_other_line_ending", 2);
                                        rep.tv(2);
                                        rep.tr(2);
                                        if let Some(bad) = leftover_le_check(&b, &src, crlf, &r.out, &r.tmp) {
                                            rep.violate(
                                                "foreign-line-ending-left-over",
                                                format!("source {:?} (first line {}), include={iname} command={cname}: {bad}", show(&src), if crlf { "CRLF" } else { "LF" }),
                                                rj("C12", &src, json!({"inc": inc, "cmd": cmd, "leftover": true})),
                                            );
                                        }
                                    }
                                }
                                V::Panic(p) => rep.violate("panic", format!("source {:?}: panic {p}", show(&src)), rj("C12", &src, json!({"inc": inc, "cmd": cmd}))),
                                _ => {}
                            }
                        }
                    }
                }
            }
            if seq == [5, 1, 6] {
                rep.sample(json!({"source_lines": seq.iter().map(|&i| SIGMA_12[i]).collect::<Vec<_>>(), "terminators": "all 2^3 x {last: LF, CRLF, none}", "include_variants": 4}));
            }
        });
        if rep.over_cap() {
            rep.note_cap("wall-clock cap");
        }
        rep.set("set_model_steps", json!(shapes.into_iter().collect::<Vec<_>>()));
    });
    // the first line decides - also when it is longer than any buffer
    let lens: Vec<usize> = if thorough { vec![100, 4095, 4096, 8189, 8190, 8191, 8192, 8193, 16383, 16384, 16385, 70000] } else { vec![8190, 8191, 8192, 8193, 70000] };
    sharded(&rep, par_threads().min(lens.len() * 2), |k, n, rep| {
        let b = Bench::new(&Tree::new());
        for (li, len) in lens.iter().enumerate() {
            for first_crlf in [false, true] {
                if (li * 2 + first_crlf as usize) % n != k {
                    continue;
                }
                for first_kind in ["text", "write"] {
                    let first = if first_kind == "text" { "y".repeat(*len) } else { format!("-TXTPP#write {}", "y".repeat(*len - 13)) };
                    for rest in ["x\n-TXTPP#include inc.txt\n-TXTPP#temp t.out\n-a\n-b\n", "x\r\n-TXTPP#include inc.txt\r\n-TXTPP#temp t.out\r\n-a\r\n-b\r\n"] {
                        let mut src = first.clone().into_bytes();
                        src.extend_from_slice(if first_crlf { b"\r\n" } else { b"\n" });
                        src.extend_from_slice(rest.as_bytes());
                        std::fs::write(b.base.join("inc.txt"), "p\r\nq\nr\r\n").unwrap();
                        let r = b.run(&src, Mode::Build, true, true);
                        rep.tv(1);
                        rep.tr(1);
                        rep.add("long_first_line_cases", 1);
                        if r.v == V::Ok {
                            for (what, bytes) in [("output", &r.out), ("temp target", &r.tmp)] {
                                if let Some(bytes) = bytes {
                                    if let Some(bad) = scan_le(bytes, first_crlf) {
                                        rep.violate(
                                            "foreign-line-ending",
                                            format!("source whose first line ({first_kind}) has {len} bytes and ends in {}: {what} has {bad}", if first_crlf { "CRLF" } else { "LF" }),
                                            rj("C12", &src, json!({"inc": "p\r\nq\nr\r\n", "cmd": ""})),
                                        );
                                    }
                                }
                            }
                        } else {
                            rep.violate("long-line-build-failed", format!("first line of {len} bytes: {}", r.v.kind()), rj("C12", &src, json!({"inc": "p\r\nq\nr\r\n", "cmd": ""})));
                        }
                    }
                }
            }
        }
    });
    finish_steps(&rep);
    if rep.get("cases_built_with_foreign_line_endings") == 0 {
        rep.machinery("vacuous: no successfully built case mixed line endings".into());
    }
    rep.finish()
}

// ---------------------------------------------------------------- C16

pub const TOK_16: [&str; 11] = ["TXTPP#run", "-TXTPP#", "TXTPP", "#", " ", "\t", "x", "\u{e9}", "T", "\0", "\u{feff}"];

fn lines_over_tokens(max_tok: usize) -> Vec<String> {
    let mut set = BTreeSet::new();
    set.insert(String::new());
    let mut cur: Vec<String> = vec![String::new()];
    for _ in 0..max_tok {
        let mut nxt = vec![];
        for c in &cur {
            for t in TOK_16 {
                let s = format!("{c}{t}");
                if set.insert(s.clone()) {
                    nxt.push(s);
                } else {
                    // reachable by another token split: still extend once
                    nxt.push(s);
                }
            }
        }
        nxt.sort();
        nxt.dedup();
        cur = nxt;
    }
    set.into_iter().collect()
}

fn expected_text(lines: &[&str], le: &str, tn: bool) -> Vec<u8> {
    if lines.is_empty() {
        return vec![];
    }
    let mut s = lines.join(le);
    if tn {
        s.push_str(le);
    }
    s.into_bytes()
}

pub fn run_c16(tier: &str) -> i32 {
    let rep = Report::new("C16", tier);
    let thorough = rep.thorough();
    // (max tokens per line, max lines)
    let plans: Vec<(usize, usize)> = if thorough { vec![(2, 3), (3, 2)] } else { vec![(2, 2), (3, 1)] };
    rep.set("token_alphabet", json!(TOK_16));
    rep.set("bounds", json!(format!("texts with (tokens per line, lines) <= {:?} over 11 look-alike tokens (incl. U+FEFF); (a) directive-free texts verbatim, (b) write-escape round trip of every admissible text without a stored tag, with one, and captured by a second tag and injected next to the first, (c) ordinary lines in order on the C01 core space", plans)));
    rep.assume("which lines are 'directive lines' is decided by the reference grammar (checked against the implementation by C15)");
    for (pi, (max_tok, max_lines)) in plans.iter().enumerate() {
        let lines = lines_over_tokens(*max_tok);
        rep.set(&format!("distinct_lines_plan{pi}"), json!(lines.len()));
        let is_dir: Vec<bool> = lines.iter().map(|l| classify(l).is_some()).collect();
        sharded_dyn(&rep, par_threads(), |_k, _n, next, rep| {
            let b = Bench::new(&Tree::new());
            let stop = || rep.over_cap();
            let mut shapes = BTreeSet::new();
            for_each_seq(lines.len(), *max_lines, next, &stop, &mut |seq| {
                let text: Vec<&str> = seq.iter().map(|&i| lines[i].as_str()).collect();
                let any_dir = seq.iter().any(|&i| is_dir[i]);
                rep.st(1);
                // (a) directive-free text is reproduced
                if !any_dir {
                    for crlf in [false, true] {
                        for final_nl in [true, false] {
                            if text.is_empty() && (crlf || !final_nl) {
                                continue;
                            }
                            if !final_nl && text.last() == Some(&"") {
                                // without a final newline a trailing empty line is not representable: the file denotes a shorter text
                                continue;
                            }
                            let src = build_source(&text, crlf, final_nl);
                            let le = first_le(&src);
                            for tn in [true, false] {
                                let r = b.run(&src, Mode::Build, true, tn);
                                rep.tv(1);
                                rep.tr(1);
                                rep.add("a_texts_verbatim", 1);
                                // source "" has no line at all; a source of one empty line without newline is the same file
                                let eff: Vec<&str> = if src.is_empty() { vec![] } else { text.clone() };
                                let want = expected_text(&eff, le, tn);
                                if r.v != V::Ok || r.out.as_deref() != Some(&want[..]) {
                                    rep.violate(
                                        "text-modified",
                                        format!("directive-free source {:?} tn={tn}: {} output {:?}, expected {:?}", show(&src), r.v.kind(), r.out.as_ref().map(|x| show(x)), show(&want)),
                                        rj("C16", &src, json!({"tn": tn, "part": "a", "expected_b64": b64(&want)})),
                                    );
                                }
                            }
                        }
                    }
                    shapes.insert("a:0".to_string());
                }
                // (b) write-escape round trip
                if !text.is_empty()
                    && !text[0].starts_with([' ', '\t'])
                    && text.iter().all(|l| !l.ends_with([' ', '\t']))
                {
                    for crlf in [false, true] {
                        let le = if crlf { "\r\n" } else { "\n" };
                        for variant in 0..3u8 {
                            let with_tag = variant == 1;
                            // variant 2: the written text is captured by tag U and injected on a line that also uses tag T
                            // (the text may contain the spelling "T"): injected text is not searched for tags again
                            let captured = variant == 2;
                            let mut src_lines: Vec<String> = vec![];
                            if with_tag || captured {
                                src_lines.push("-TXTPP#tag T".into());
                                src_lines.push("+TXTPP#write V".into());
                            }
                            if captured {
                                src_lines.push("=TXTPP#tag U".into());
                            }
                            src_lines.push(format!("-TXTPP#write {}", text[0]));
                            for l in &text[1..] {
                                src_lines.push(format!("-{l}"));
                            }
                            if with_tag {
                                src_lines.push("+TXTPP#".into());
                                src_lines.push("T".into());
                            }
                            if captured {
                                src_lines.push("+TXTPP#".into());
                                src_lines.push("U T".into());
                            }
                            let refs: Vec<&str> = src_lines.iter().map(|s| s.as_str()).collect();
                            let src = build_source(&refs, crlf, true);
                            let r = b.run(&src, Mode::Build, true, true);
                            rep.tv(1);
                            rep.tr(1);
                            rep.add("b_write_round_trips", 1);
                            if any_dir {
                                rep.add("b_round_trips_of_texts_containing_directive_lines", 1);
                            }
                            if captured {
                                rep.add("b_round_trips_through_a_tag", 1);
                            }
                            let mut want = text.join(le);
                            if with_tag {
                                want.push('V');
                            }
                            if captured {
                                want.push_str(" V");
                            }
                            want.push_str(le);
                            let want = want.into_bytes();
                            if r.v != V::Ok || r.out.as_deref() != Some(&want[..]) {
                                rep.violate(
                                    "write-not-inert",
                                    format!("write-escape of {:?} (source {:?}): {} output {:?}, expected {:?}", text, show(&src), r.v.kind(), r.out.as_ref().map(|x| show(x)), show(&want)),
                                    rj("C16", &src, json!({"tn": true, "part": "b", "expected_b64": b64(&want)})),
                                );
                            }
                            shapes.insert(format!("b:{}", variant | (any_dir as u8) << 2));
                        }
                    }
                }
                if seq.len() == 2 && lines[seq[0]] == "TXTPP#run" && lines[seq[1]] == "-TXTPP#" {
                    rep.sample(json!({"text": text, "escape": ["-TXTPP#write TXTPP#run", "--TXTPP#"]}));
                }
            });
            if rep.over_cap() {
                rep.note_cap("wall-clock cap");
            }
            rep.set("set_model_steps", json!(shapes.into_iter().collect::<Vec<_>>()));
        });
    }
    // (a') directive-free texts with lines longer than a reader / writer buffer
    {
        let b = Bench::new(&Tree::new());
        let lens: Vec<usize> = if thorough { vec![4096, 8190, 8191, 8192, 8193, 16384, 20000, 70000] } else { vec![8191, 8192, 8193, 70000] };
        for len in lens {
            let long = "y".repeat(len);
            let long2 = format!("{} TXTPP {}", "z".repeat(len / 2), "z".repeat(len / 2));
            for text in [vec![long.as_str()], vec!["x", long.as_str()], vec![long.as_str(), "x"], vec!["x", long.as_str(), "x"], vec![long.as_str(), long2.as_str()], vec!["", long2.as_str(), ""]] {
                for crlf in [false, true] {
                    for final_nl in [true, false] {
                        if !final_nl && text.last() == Some(&"") {
                            continue;
                        }
                        let src = build_source(&text, crlf, final_nl);
                        let le = first_le(&src);
                        for tn in [true, false] {
                            for mode in [Mode::Build, Mode::InMemoryBuild] {
                                let r = b.run(&src, mode.clone(), true, tn);
                                rep.tv(1);
                                rep.tr(1);
                                rep.add("a_long_line_texts", 1);
                                let want = expected_text(&text, le, tn);
                                if r.v != V::Ok || r.out.as_deref() != Some(&want[..]) {
                                    rep.violate(
                                        "text-modified",
                                        format!("directive-free source with a line of {len} bytes ({} lines, {}, final newline {final_nl}) tn={tn} {:?}: {} output of {} bytes, expected {} bytes", text.len(), if crlf { "CRLF" } else { "LF" }, mode, r.v.kind(), r.out.as_ref().map(|x| x.len()).unwrap_or(0), want.len()),
                                        rj("C16", &src, json!({"tn": tn, "part": "a", "expected_b64": b64(&want), "mode": format!("{:?}", mode)})),
                                    );
                                }
                            }
                        }
                    }
                }
            }
        }
    }
    // (d) directive-free text around a dependency directive: the file is processed in two passes
    {
        let lines = lines_over_tokens(2);
        let is_dir: Vec<bool> = lines.iter().map(|l| classify(l).is_some()).collect();
        let max_lines = if thorough { 2 } else { 1 };
        sharded_dyn(&rep, par_threads(), |_k, _n, next, rep| {
            let scratch = Scratch::new();
            let base = scratch.p("p");
            let stop = || rep.over_cap();
            for_each_seq(lines.len(), max_lines, next, &stop, &mut |seq| {
                if seq.is_empty() || seq.iter().any(|&i| is_dir[i]) {
                    return;
                }
                let text: Vec<&str> = seq.iter().map(|&i| lines[i].as_str()).collect();
                let body = text.join("\n");
                for (pos, src, want) in [
                    ("after", format!("TXTPP#include dep.txt\n{body}\n"), format!("D\n{body}\n")),
                    ("before", format!("{body}\nTXTPP#include dep.txt\n"), format!("{body}\nD\n\n")),
                ] {
                    let _ = std::fs::remove_dir_all(&base);
                    std::fs::create_dir_all(&base).unwrap();
                    std::fs::write(base.join("dep.txt.txtpp"), "D\n").unwrap();
                    std::fs::write(base.join("s.txt.txtpp"), &src).unwrap();
                    let r = crate::ctl::run_canonical(txtpp::Config {
                        base_dir: base.clone(),
                        shell_cmd: String::new(),
                        inputs: vec!["s.txt".into()],
                        recursive: false,
                        num_threads: 4,
                        mode: Mode::Build,
                        verbosity: txtpp::Verbosity::Quiet,
                        trailing_newline: true,
                    });
                    rep.tv(1);
                    rep.tr(1);
                    rep.add("d_two_pass_texts", 1);
                    let got = std::fs::read(base.join("s.txt")).ok();
                    if !r.verdict.is_ok() || !r.clean() || got.as_deref() != Some(want.as_bytes()) {
                        rep.violate(
                            "text-modified-in-two-pass-file",
                            format!("text {:?} {pos} a dependency directive: {} output {:?}, expected {:?}", text, r.verdict.kind(), got.as_ref().map(|x| show(x)), want),
                            rj("C16", src.as_bytes(), json!({"part": "d", "expected_b64": b64(want.as_bytes())})),
                        );
                    }
                }
            });
        });
    }
    // (c) ordinary lines appear in order on the C01 spaces (core and extension alphabet)
    let l_c = if thorough { 4 } else { 3 };
    for (alpha, help) in [(SIGMA_CORE.to_vec(), helpers()), (SIGMA_EXT.to_vec(), helpers_ext())] {
    sharded_dyn(&rep, par_threads(), |_k, _n, next, rep| {
        let b = Bench::new(&help);
        let stop = || rep.over_cap();
        for_each_seq(alpha.len(), l_c, next, &stop, &mut |seq| {
            let lines: Vec<&str> = seq.iter().map(|&i| alpha[i]).collect();
            let src = build_source(&lines, false, true);
            let m = match b.model(&src, true) {
                Ok(m) => m,
                Err(_) => return,
            };
            let r = b.run(&src, Mode::Build, true, true);
            rep.tv(1);
            rep.tr(1);
            rep.st(1);
            rep.add("c_sources_with_ordered_text_check", 1);
            if r.v != V::Ok {
                return; // verdict agreement is C01's business
            }
            let out = String::from_utf8_lossy(r.out.as_deref().unwrap_or_default()).to_string();
            let mut pos = 0;
            for l in &m.text_lines {
                match out[pos..].find(l.as_str()) {
                    Some(i) => pos += i + l.len(),
                    None => {
                        rep.violate(
                            "text-line-lost",
                            format!("source {:?}: ordinary line {:?} does not appear (in order) in the output {:?}", show(&src), l, out),
                            rj("C16", &src, json!({"tn": true, "part": "c"})),
                        );
                        break;
                    }
                }
            }
        });
        rep.set("set_model_steps", json!(["c:0"]));
    });
    }
    finish_steps(&rep);
    if rep.get("a_texts_verbatim") == 0 || rep.get("b_round_trips_of_texts_containing_directive_lines") == 0 {
        rep.machinery("vacuous enumeration".into());
    }
    rep.finish()
}

pub fn replay(v: &serde_json::Value) -> bool {
    let src = unb64(v["source_b64"].as_str().unwrap_or(""));
    let prop = v["prop"].as_str().unwrap_or("");
    let help = if prop == "C13" { helpers() } else { Tree::new() };
    let b = Bench::new(&help);
    if let Some(inc) = v["extra"]["inc"].as_str() {
        std::fs::write(b.base.join("inc.txt"), inc).unwrap();
    }
    if let Some(cmd) = v["extra"]["cmd"].as_str() {
        std::fs::write(b.base.join("cmd.txt"), cmd).unwrap();
    }
    let rep = Report::new(prop, "quick");
    match prop {
        "C13" => {
            if let Some(args) = v["extra"]["cli_args"].as_array() {
                let args: Vec<String> = args.iter().map(|x| x.as_str().unwrap().to_string()).collect();
                let a: Vec<&str> = args.iter().map(|s| s.as_str()).collect();
                let tn = !a.contains(&"-n");
                let lib = b.run(&src, Mode::Build, true, tn);
                b.reset(&src, None, None);
                let (code, to) = run_cli(&b.base, &a, &[], 20.0);
                let out = std::fs::read(b.base.join(OUT)).ok();
                println!("replay: txtpp {:?} -> exit {code}, output {:?}; library with trailing_newline={tn}: {} {:?}", a, out.as_ref().map(|x| show(x)), lib.v.kind(), lib.out.as_ref().map(|x| show(x)));
                return to || (code == 0) != (lib.v == V::Ok) || (code == 0 && out != lib.out);
            }
            c13_pair(&rep, &b, &src);
        }
        "C12" => {
            let r = b.run(&src, Mode::Build, true, true);
            let crlf = first_le(&src) == "\r\n";
            println!("replay source {:?}: {} out={:?} tmp={:?}", show(&src), r.v.kind(), r.out.as_ref().map(|x| show(x)), r.tmp.as_ref().map(|x| show(x)));
            for bytes in [&r.out, &r.tmp].into_iter().flatten() {
                if let Some(bad) = scan_le(bytes, crlf) {
                    println!("  {bad}");
                    return true;
                }
            }
            if v["extra"]["leftover"].as_bool() == Some(true) && r.v == V::Ok {
                if let Some(bad) = leftover_le_check(&b, &src, crlf, &r.out, &r.tmp) {
                    println!("  {bad}");
                    return true;
                }
            }
            return matches!(r.v, V::Panic(_));
        }
        _ => {
            let tn = v["extra"]["tn"].as_bool().unwrap_or(true);
            let r = b.run(&src, crate::sched::mode_from(v["extra"]["mode"].as_str().unwrap_or("Build")), true, tn);
            println!("replay source {:?} tn={tn}: {} out={:?}", show(&src), r.v.kind(), r.out.as_ref().map(|x| show(x)));
            if v["extra"]["part"].as_str() == Some("d") {
                let scratch = Scratch::new();
                let base = scratch.p("p");
                std::fs::create_dir_all(&base).unwrap();
                std::fs::write(base.join("dep.txt.txtpp"), "D\n").unwrap();
                std::fs::write(base.join("s.txt.txtpp"), &src).unwrap();
                let r = crate::ctl::run_canonical(txtpp::Config { base_dir: base.clone(), shell_cmd: String::new(), inputs: vec!["s.txt".into()], recursive: false, num_threads: 4, mode: Mode::Build, verbosity: txtpp::Verbosity::Quiet, trailing_newline: true });
                let got = std::fs::read(base.join("s.txt")).ok();
                let want = unb64(v["extra"]["expected_b64"].as_str().unwrap_or(""));
                println!("replay: two-pass source {:?}: {} {:?}, expected {:?}", show(&src), r.verdict.kind(), got.as_ref().map(|x| show(x)), show(&want));
                return !r.verdict.is_ok() || got.as_deref() != Some(&want[..]);
            }
            if let Some(e) = v["extra"]["expected_b64"].as_str() {
                let want = unb64(e);
                println!("  expected {:?}", show(&want));
                return r.v != V::Ok || r.out.as_deref() != Some(&want[..]);
            }
            // part (c): ordinary lines in order
            let hb = Bench::new(&{
                let mut h = helpers_ext();
                h.extend(helpers());
                h
            });
            let r = hb.run(&src, Mode::Build, true, true);
            if let (Ok(m), V::Ok) = (hb.model(&src, true), &r.v) {
                let out = String::from_utf8_lossy(r.out.as_deref().unwrap_or_default()).to_string();
                let mut pos = 0;
                for l in &m.text_lines {
                    match out[pos..].find(l.as_str()) {
                        Some(i) => pos += i + l.len(),
                        None => return true,
                    }
                }
            }
            return false;
        }
    }
    for v in rep.violations.lock().unwrap().iter() {
        println!("  [{}] {}", v.signature, v.message);
    }
    rep.n_violations() > 0
}
