mod conf;
mod crash;
mod ctl;
mod ebytes;
mod eclean;
mod elines;
mod elines2;
mod etree;
mod faults;
mod gram;
mod hist;
mod tags;
mod eproj;
mod model;
mod sched;
mod smodel;
mod strace10;
mod util;

use std::time::Duration;

fn usage() -> ! {
    eprintln!("usage: vcheck <C01..C18> <quick|thorough> | vcheck replay <file>");
    std::process::exit(2);
}

fn main() {
    let args: Vec<String> = std::env::args().skip(1).collect();
    if args.len() < 2 {
        usage();
    }
    // the subject refuses to start commands' children when this is set; commands must not see a stale one
    std::env::remove_var("TXTPP_FILE");
    std::env::set_var("LC_ALL", "C");
    if args[0] == "conf-child" {
        std::panic::set_hook(Box::new(|_| {}));
        std::process::exit(conf::child_main(&args[1]));
    }
    let replay_path = std::fs::canonicalize(&args[1]).unwrap_or_else(|_| args[1].clone().into());
    std::env::set_current_dir("/").expect("chdir /");
    // panics of the subject are caught and reported by the engines; keep the text for diagnostics
    std::panic::set_hook(Box::new(|info| {
        let mut l = util::PANIC_LOG.lock().unwrap_or_else(|e| e.into_inner());
        if l.len() < 50 {
            l.push(format!("[{}] {}", std::thread::current().name().unwrap_or("?"), info));
        }
    }));
    let _ = util::REPLAYER.set(|prop, v| {
        // quiet re-execution: the engines' replay functions print; that output is useful in the log
        dispatch_replay(prop, v)
    });
    let code = if args[0] == "replay" {
        ctl::start_watchdog(Duration::from_secs(60));
        let text = std::fs::read_to_string(&replay_path).expect("read replay file");
        let v: serde_json::Value = serde_json::from_str(&text).expect("parse replay file");
        let prop = v["property"].as_str().unwrap_or("").to_string();
        let still = dispatch_replay(&prop, &v["replay"]);
        println!("{}", if still { "REPRODUCED" } else { "not reproduced" });
        if still { 1 } else { 0 }
    } else {
        match std::panic::catch_unwind(|| dispatch(&args[0], &args[1])) {
            Ok(c) => c,
            Err(_) => {
                eprintln!("MACHINERY-ERROR: the harness panicked: {:?}", util::PANIC_LOG.lock().map(|l| l.clone()).unwrap_or_default());
                2
            }
        }
    };
    util::cleanup_scratch_root();
    std::process::exit(code);
}

fn dispatch(prop: &str, tier: &str) -> i32 {
    if tier != "quick" && tier != "thorough" {
        usage();
    }
    match prop {
        "C01" => elines::run_c01(tier),
        "C12" => elines2::run_c12(tier),
        "C13" => elines2::run_c13(tier),
        "C16" => elines2::run_c16(tier),
        "C15" => gram::run_c15(tier),
        "C14" => tags::run_c14(tier),
        "C17" => conf::run_c17(tier),
        "C11" => etree::run_c11(tier),
        "C04" => faults::run_c04(tier),
        "C18" => ebytes::run_c18(tier),
        "C06" | "C07" | "C08" | "C09" | "C10" => hist::run_property(prop, tier),
        "C02" | "C03" | "C05" => sched::run_property(prop, tier),
        _ => {
            eprintln!("unknown property {prop}");
            2
        }
    }
}

fn dispatch_replay(prop: &str, v: &serde_json::Value) -> bool {
    match v["case"]["engine"].as_str().or(v["engine"].as_str()).unwrap_or("") {
        "S" => sched::replay(prop, v),
        "E-lines" => elines::replay(v),
        "E-lines2" => elines2::replay(v),
        "U-gram" => gram::replay(v),
        "U-tag" => tags::replay(v),
        "E-conf" => conf::replay(v),
        "E-tree" => etree::replay(v),
        "X" => faults::replay(v),
        "E-bytes" => ebytes::replay(v),
        "H" => hist::replay(v),
        "H-sweep" => hist::replay_sweep(v),
        "H-cli" => hist::replay_cli(v),
        "E-clean" => eclean::replay(v),
        "strace10" => strace10::replay(v),
        "K" => crash::replay(v),
        "E-proj" => eproj::replay(v),
        e => {
            eprintln!("unknown engine {e:?} in replay file");
            std::process::exit(2);
        }
    }
}
