mod ctl;
mod sched;
mod util;

use std::time::Duration;

fn usage() -> ! {
    eprintln!("usage: vcheck <C01..C18> <quick|thorough> | vcheck replay <file>");
    std::process::exit(2);
}

fn main() {
    let args: Vec<String> = std::env::args().skip(1).collect();
    if args.len() < 2 {
        usage();
    }
    // the subject refuses to start commands' children when this is set; commands must not see a stale one
    std::env::remove_var("TXTPP_FILE");
    std::env::set_var("LC_ALL", "C");
    std::env::set_current_dir("/").expect("chdir /");
    std::panic::set_hook(Box::new(|_| {})); // panics are caught and reported by the engines
    let code = if args[0] == "replay" {
        ctl::start_watchdog(Duration::from_secs(60));
        let text = std::fs::read_to_string(&args[1]).expect("read replay file");
        let v: serde_json::Value = serde_json::from_str(&text).expect("parse replay file");
        let prop = v["property"].as_str().unwrap_or("").to_string();
        let still = dispatch_replay(&prop, &v["replay"]);
        println!("{}", if still { "REPRODUCED" } else { "not reproduced" });
        if still { 1 } else { 0 }
    } else {
        dispatch(&args[0], &args[1])
    };
    util::cleanup_scratch_root();
    std::process::exit(code);
}

fn dispatch(prop: &str, tier: &str) -> i32 {
    if tier != "quick" && tier != "thorough" {
        usage();
    }
    match prop {
        "C02" | "C03" | "C05" => sched::run_property(prop, tier),
        _ => {
            eprintln!("unknown property {prop}");
            2
        }
    }
}

fn dispatch_replay(prop: &str, v: &serde_json::Value) -> bool {
    match v["case"]["engine"].as_str().or(v["engine"].as_str()).unwrap_or("") {
        "S" => sched::replay(prop, v),
        e => {
            eprintln!("unknown engine {e:?} in replay file");
            std::process::exit(2);
        }
    }
}
