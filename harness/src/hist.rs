//! Engine H: explicit-state breadth-first search over operation histories of a project tree
//! (txtpp runs in four modes, source edits, tampering of generated files). Serves C06-C10.
#![allow(dead_code)]

use crate::ctl::*;
use crate::util::*;
use serde_json::{json, Value};
use std::collections::{BTreeMap, BTreeSet, HashMap, HashSet};
use std::path::Path;
use txtpp::{Config, Mode, Verbosity};

// ---------------------------------------------------------------- projects

#[derive(Clone, Debug)]
pub struct Src {
    pub path: String,
    pub output: String,
    pub temps: Vec<String>,
    pub deps: Vec<usize>,
    pub v: [String; 2],
}

#[derive(Clone, Debug)]
pub struct Sel {
    pub inputs: Vec<String>,
    pub recursive: bool,
    pub roots: Vec<usize>,
}

#[derive(Clone, Debug)]
pub struct Project {
    pub name: String,
    pub sources: Vec<Src>,
    /// plain files, directories and decoys (never generated, never sources)
    pub plain: Tree,
    pub sels: Vec<Sel>,
}

fn decoys(t: &mut Tree, dirs: &[&str]) {
    for d in dirs {
        let p = |n: &str| if d.is_empty() { n.to_string() } else { format!("{d}/{n}") };
        tfile(t, &p("a.txt.bak"), "decoy bak\n");
        tfile(t, &p("a.txt~"), "decoy tilde\n");
        tfile(t, &p("a.txtpp.d/keep"), "decoy dir\n");
        tfile(t, &p("txtpp"), "decoy txtpp\n");
        tfile(t, &p(".txtpp"), "decoy dot\n");
        tfile(t, &p("a.txtpp.b.c"), "decoy three ext\n");
        for stem in ["s", "a", "b", "ok", "top", "mid", "leaf", "e"] {
            tfile(t, &p(&format!("{stem}.tmp")), "decoy with the stem of an output\n");
            tfile(t, &p(&format!("{stem}.txt.tmp")), "decoy with the name of an output\n");
        }
    }
    tfile(t, "sub/other.txt", "other\n");
}

fn src(path: &str, output: &str, temps: &[&str], deps: &[usize], v0: &str, v1: &str) -> Src {
    Src {
        path: path.into(),
        output: output.into(),
        temps: temps.iter().map(|s| s.to_string()).collect(),
        deps: deps.to_vec(),
        v: [v0.into(), v1.into()],
    }
}

fn sel(inputs: &[&str], recursive: bool, roots: &[usize]) -> Sel {
    Sel { inputs: inputs.iter().map(|s| s.to_string()).collect(), recursive, roots: roots.to_vec() }
}

pub fn project(name: &str) -> Project {
    let mut plain = Tree::new();
    match name {
        "solo" => {
            tfile(&mut plain, "plain.txt", "plain\n");
            decoys(&mut plain, &[""]);
            let body = |head: &str, t: &str| {
                format!(
                    "{head} \u{e9}\u{20ac}\u{fffd}\u{1f600}\n-TXTPP#write w1\n-w2 \u{fffd}\n+TXTPP#temp t.out\n+h\u{e9}llo {t} \u{fffd}\n+second\n-TXTPP#include t.out\n-TXTPP#include plain.txt\n-TXTPP#run echo x >> ../m/s\ntail\n"
                )
            };
            Project {
                name: name.into(),
                sources: vec![src("s.txt.txtpp", "s.txt", &["t.out"], &[], &body("head", "one"), &body("HEAD2", "two"))],
                plain,
                // (the last selection is the empty input list of the library API: nothing is selected, nothing may be touched)
                sels: vec![sel(&["."], true, &[0]), sel(&["s.txt"], false, &[0]), sel(&["s.txt.txtpp"], false, &[0]), sel(&[], true, &[])],
            }
        }
        "chain" => {
            tfile(&mut plain, "plain.txt", "plain\n");
            tfile(&mut plain, "gen/keep", "keep\n");
            decoys(&mut plain, &["", "gen"]);
            let a = |x: &str| format!("{x}\n-TXTPP#run echo x >> ../m/a0\nTXTPP#include b.txt\nTXTPP#after b.txt\n-TXTPP#run cat b.txt\n+TXTPP#run echo x >> ../m/a\nA2\n");
            let b = |x: &str| format!("{x}\nTXTPP#include plain.txt\n-TXTPP#temp gen/b.tmp\n-tb {x}\n-\nB2\n");
            Project {
                name: name.into(),
                sources: vec![
                    src("a.txt.txtpp", "a.txt", &[], &[1], &a("A1"), &a("A1-edited")),
                    src("b.txt.txtpp", "b.txt", &["gen/b.tmp"], &[], &b("B1"), &b("B1-edited")),
                ],
                plain,
                sels: vec![sel(&["."], true, &[0, 1]), sel(&["a.txt", "b.txt"], false, &[0, 1]), sel(&["a.txt"], false, &[0])],
            }
        }
        "errsrc" => {
            decoys(&mut plain, &[""]);
            tfile(&mut plain, "x.txtpp", "not to be overwritten\n");
            // x.txtpp is itself a source by name: it is declared below so that its output is known
            plain.remove("x.txtpp");
            let ok = |x: &str| format!("{x}\n-TXTPP#temp ok.tmp\n-body {x}\n");
            let e1 = |x: &str| format!("{x}\n-TXTPP#temp e1.tmp\n-body\nTXTPP#run echo x >> ../m/e1\n");
            let e2 = |x: &str| format!("{x}\n-TXTPP#run echo x >> ../m/e2\n+TXTPP#temp e2.tmp\n+body\n-TXTPP#tag T\n-TXTPP#tag U\nT U\n");
            let e3 = |x: &str| format!("{x}\n-TXTPP#temp e3.tmp\n-body\nTXTPP#include missing.txt\n");
            let e4 = |x: &str| format!("{x}\n-TXTPP#temp x.txtpp\n-overwritten\n");
            let xs = |x: &str| format!("{x}\n");
            // a tag that is stored and never used: the error is only detected at the end of the file
            let e5 = |x: &str| format!("{x}\n-TXTPP#temp e5.tmp\n-body\n+TXTPP#tag T\n-TXTPP#write w\nlast line\n");
            Project {
                name: name.into(),
                sources: vec![
                    src("ok.txt.txtpp", "ok.txt", &["ok.tmp"], &[], &ok("ok"), &ok("ok2")),
                    src("e1.txt.txtpp", "e1.txt", &["e1.tmp"], &[], &e1("e1"), &e1("e1b")),
                    src("e2.txt.txtpp", "e2.txt", &["e2.tmp"], &[], &e2("e2"), &e2("e2b")),
                    src("e3.txt.txtpp", "e3.txt", &["e3.tmp"], &[], &e3("e3"), &e3("e3b")),
                    src("e4.txt.txtpp", "e4.txt", &[], &[], &e4("e4"), &e4("e4b")),
                    src("x.txtpp", "x", &[], &[], &xs("plain source x"), &xs("plain source x2")),
                    src("e5.txt.txtpp", "e5.txt", &["e5.tmp"], &[], &e5("e5"), &e5("e5b")),
                ],
                plain,
                sels: vec![
                    sel(&["."], false, &[0, 1, 2, 3, 4, 5, 6]),
                    sel(&["ok.txt", "x"], false, &[0, 5]),
                    sel(&["e1.txt", "e2.txt", "e3.txt", "e4.txt"], false, &[1, 2, 3, 4]),
                    sel(&["e5.txt"], false, &[6]),
                ],
            }
        }
        "nested" => {
            decoys(&mut plain, &["", "sub", "sub/deep"]);
            // a second name of sub/: a non-recursive scan of the base must not descend through it
            plain.insert("more".into(), Node::Link("sub".into()));
            let top = |x: &str| format!("{x}\nTXTPP#include sub/mid.txt\n-TXTPP#temp sub/top.tmp\n-tt {x}\n");
            let mid = |x: &str| format!("{x}\nTXTPP#include deep/leaf\n-TXTPP#temp ../mid.tmp\n-mm {x}\n+TXTPP#run echo x >> ../../m/mid\n");
            tfile(&mut plain, "sub/deep/out/keep", "keep\n");
            let leaf = |x: &str| format!("{x}\n-TXTPP#temp ../../leaf.tmp\n-ll {x}\n-\n+TXTPP#temp out/leaf2.tmp\n+l2 {x}\n");
            Project {
                name: name.into(),
                sources: vec![
                    src("top.txt.txtpp", "top.txt", &["sub/top.tmp"], &[1], &top("T"), &top("T-edited")),
                    src("sub/mid.txtpp.txt", "sub/mid.txt", &["mid.tmp"], &[2], &mid("M"), &mid("M-edited")),
                    src("sub/deep/leaf.txtpp", "sub/deep/leaf", &["leaf.tmp", "sub/deep/out/leaf2.tmp"], &[], &leaf("L"), &leaf("L-edited")),
                ],
                plain,
                sels: vec![
                    sel(&["."], true, &[0, 1, 2]),
                    sel(&["top.txt"], false, &[0]),
                    sel(&["sub/mid.txt", "sub/deep/leaf"], false, &[1, 2]),
                    sel(&["."], false, &[0]),
                ],
            }
        }
        "dotdep" => {
            // a dependency whose name has several dots, in the foo.txtpp.ext shape, included by another source
            decoys(&mut plain, &[""]);
            let idx = |x: &str| format!("{x}\nTXTPP#include data.v2.json\nTXTPP#include conf.d/net.v1.yaml\nend\n");
            let data = |x: &str| format!("{{ \"v\": \"{x}\" }}\n");
            let net = |x: &str| format!("net: {x}\n-TXTPP#temp net.v1.tmp\n-{x}\n");
            Project {
                name: name.into(),
                sources: vec![
                    src("index.txt.txtpp", "index.txt", &[], &[1, 2], &idx("index"), &idx("INDEX2")),
                    src("data.v2.txtpp.json", "data.v2.json", &[], &[], &data("one"), &data("two")),
                    src("conf.d/net.v1.yaml.txtpp", "conf.d/net.v1.yaml", &["conf.d/net.v1.tmp"], &[], &net("n1"), &net("n2")),
                ],
                plain,
                sels: vec![sel(&["."], true, &[0, 1, 2]), sel(&["index.txt"], false, &[0]), sel(&["data.v2.json", "conf.d/net.v1.yaml"], false, &[1, 2])],
            }
        }
        "afteronly" => {
            // a dependency that is only waited for (`after`): nothing of its output appears in the depender
            decoys(&mut plain, &[""]);
            let r = |x: &str| format!("{x}\nTXTPP#after gen.txt\n{x} end\n");
            let g = |x: &str| format!("{x}\n-TXTPP#temp g.tmp\n-tg {x}\n");
            Project {
                name: name.into(),
                sources: vec![src("r.txt.txtpp", "r.txt", &[], &[1], &r("R"), &r("R-edited")), src("gen.txt.txtpp", "gen.txt", &["g.tmp"], &[], &g("G"), &g("G-edited"))],
                plain,
                sels: vec![sel(&["."], false, &[0, 1]), sel(&["r.txt"], false, &[0]), sel(&["gen.txt"], false, &[1])],
            }
        }
        "aligned" => {
            // the output is exactly 8192 bytes (one reader/writer buffer), written in small chunks
            let body = |c: char| (0..128).map(|_| format!("{}\n", c.to_string().repeat(63))).collect::<String>();
            Project {
                name: name.into(),
                sources: vec![src("al.txt.txtpp", "al.txt", &[], &[], &body('y'), &body('z'))],
                plain,
                sels: vec![sel(&["."], false, &[0]), sel(&["al.txt"], false, &[0])],
            }
        }
        "empty" => {
            // an empty output and an empty temp target
            decoys(&mut plain, &[""]);
            Project {
                name: name.into(),
                sources: vec![src("e.txt.txtpp", "e.txt", &["stamp"], &[], "-TXTPP#temp stamp\n", "-TXTPP#temp stamp\n+TXTPP#\n")],
                plain,
                sels: vec![sel(&["."], false, &[0]), sel(&["e.txt"], false, &[0])],
            }
        }
        "big" => {
            // an output of several writer buffers (interrupted runs can leave a partial one)
            // (output and temp target are both larger than 64 KiB, with non-periodic content)
            let big: String = (1..=14000).map(|i| format!("{i}\n")).collect();
            tfile(&mut plain, "big.txt", &big);
            let filler: String = (1..=16000).map(|i| format!("{i:x}.")).collect();
            let body = |x: &str| format!("{x}\nTXTPP#include big.txt\n-TXTPP#temp big.tmp\n-{x}\n-{filler}\ntail\n");
            Project {
                name: name.into(),
                sources: vec![src("b.txt.txtpp", "b.txt", &["big.tmp"], &[], &body("head"), &body("HEAD2"))],
                plain,
                sels: vec![sel(&["."], true, &[0]), sel(&["b.txt"], false, &[0])],
            }
        }
        _ => panic!("unknown project {name}"),
    }
}

impl Project {
    pub fn closure(&self, roots: &[usize]) -> BTreeSet<usize> {
        let mut r = BTreeSet::new();
        let mut st = roots.to_vec();
        while let Some(x) = st.pop() {
            if r.insert(x) {
                st.extend(self.sources[x].deps.iter());
            }
        }
        r
    }
    pub fn processed(&self, sel: &Sel, mode: &Mode) -> BTreeSet<usize> {
        if *mode == Mode::Clean {
            sel.roots.iter().cloned().collect()
        } else {
            self.closure(&sel.roots)
        }
    }
    pub fn outputs_of(&self, set: &BTreeSet<usize>) -> BTreeSet<String> {
        set.iter().map(|&i| self.sources[i].output.clone()).collect()
    }
    pub fn temps_of(&self, set: &BTreeSet<usize>) -> BTreeSet<String> {
        set.iter().flat_map(|&i| self.sources[i].temps.iter().cloned()).collect()
    }
    pub fn generated_of(&self, set: &BTreeSet<usize>) -> BTreeSet<String> {
        let mut g = self.outputs_of(set);
        g.extend(self.temps_of(set));
        g
    }
    pub fn all(&self) -> BTreeSet<usize> {
        (0..self.sources.len()).collect()
    }
    pub fn all_generated(&self) -> BTreeSet<String> {
        self.generated_of(&self.all())
    }
    pub fn pristine(&self, ver: &[usize]) -> Tree {
        let mut t = self.plain.clone();
        for (i, s) in self.sources.iter().enumerate() {
            tfile(&mut t, &s.path, &s.v[ver[i]]);
        }
        t
    }
    pub fn versions(&self, t: &Tree) -> Vec<usize> {
        self.sources.iter().map(|s| if t.get(&s.path) == Some(&Node::File(s.v[1].clone().into_bytes())) { 1 } else { 0 }).collect()
    }
}

// ---------------------------------------------------------------- operations

pub const MODES: [Mode; 4] = [Mode::Build, Mode::InMemoryBuild, Mode::Verify, Mode::Clean];

pub const TAMPERS: [&str; 11] = [
    "flip-first", "flip-middle", "flip-last", "insert-middle", "append", "truncate-0", "truncate-middle", "truncate-1", "delete", "non-utf8", "stale-text",
];

#[derive(Clone, Debug, PartialEq)]
pub enum Op {
    Run { mode: Mode, sel: usize, tn: bool },
    Edit(usize),
    Tamper(String, String),
    /// truncate a generated file to exactly n bytes (C08: every byte-prefix)
    Prefix(String, usize),
}

impl Op {
    pub fn is_run(&self) -> bool {
        matches!(self, Op::Run { .. })
    }
    pub fn describe(&self, p: &Project) -> String {
        match self {
            Op::Run { mode, sel, tn } => format!("RUN({:?}, inputs={:?}{}, tn={})", mode, p.sels[*sel].inputs, if p.sels[*sel].recursive { " -r" } else { "" }, tn),
            Op::Edit(i) => format!("EDIT({})", p.sources[*i].path),
            Op::Tamper(g, k) => format!("TAMPER({g}, {k})"),
            Op::Prefix(g, n) => format!("TRUNCATE({g}, {n} bytes)"),
        }
    }
    pub fn to_json(&self) -> Value {
        match self {
            Op::Run { mode, sel, tn } => json!({"run": format!("{:?}", mode), "sel": sel, "tn": tn}),
            Op::Edit(i) => json!({"edit": i}),
            Op::Tamper(g, k) => json!({"tamper": g, "kind": k}),
            Op::Prefix(g, n) => json!({"prefix": g, "n": n}),
        }
    }
    pub fn from_json(v: &Value) -> Op {
        if let Some(m) = v["run"].as_str() {
            Op::Run { mode: crate::sched::mode_from(m), sel: v["sel"].as_u64().unwrap_or(0) as usize, tn: v["tn"].as_bool().unwrap_or(true) }
        } else if let Some(i) = v["edit"].as_u64() {
            Op::Edit(i as usize)
        } else if let Some(g) = v["tamper"].as_str() {
            Op::Tamper(g.to_string(), v["kind"].as_str().unwrap_or("").to_string())
        } else {
            Op::Prefix(v["prefix"].as_str().unwrap_or("").to_string(), v["n"].as_u64().unwrap_or(0) as usize)
        }
    }
}

fn tamper_bytes(old: Option<&Vec<u8>>, kind: &str) -> Option<Option<Vec<u8>>> {
    // returns None if not applicable; Some(None) = delete
    match (old, kind) {
        (None, "non-utf8") => Some(Some(vec![0x68, 0xc3])),
        (None, "stale-text") => Some(Some(b"STALE\n".to_vec())),
        (None, _) => None,
        (Some(_), "delete") => Some(None),
        (Some(_), "non-utf8") => Some(Some(vec![0x68, 0xc3])),
        (Some(_), "stale-text") => Some(Some(b"STALE\n".to_vec())),
        (Some(b), k) => {
            let mut v = b.clone();
            let n = v.len();
            match k {
                "flip-first" if n > 0 => v[0] ^= 1,
                "flip-middle" if n > 2 => v[n / 2] ^= 1,
                "flip-last" if n > 1 => v[n - 1] ^= 1,
                "insert-middle" => v.insert(n / 2, b'Z'),
                "append" => v.push(b'Z'),
                "truncate-0" if n > 0 => v.clear(),
                "truncate-middle" if n > 2 => {
                    // cut inside a 2-byte character where there is one
                    let cut = v.iter().position(|&c| c == 0xc3).map(|i| i + 1).unwrap_or(n / 2);
                    v.truncate(cut)
                }
                "truncate-1" if n > 1 => v.truncate(n - 1),
                _ => return None,
            }
            Some(Some(v))
        }
    }
}

pub fn apply_pure(p: &Project, t: &Tree, op: &Op) -> Option<Tree> {
    let mut t2 = t.clone();
    match op {
        Op::Run { .. } => return None,
        Op::Edit(i) => {
            let ver = p.versions(t)[*i];
            tfile(&mut t2, &p.sources[*i].path, &p.sources[*i].v[1 - ver]);
        }
        Op::Tamper(g, k) => {
            let old = match t.get(g) {
                Some(Node::File(b)) => Some(b),
                Some(_) => return None,
                None => None,
            };
            match tamper_bytes(old, k)? {
                Some(b) => {
                    t2.insert(g.clone(), Node::File(b));
                }
                None => {
                    t2.remove(g);
                }
            }
        }
        Op::Prefix(g, n) => match t.get(g) {
            Some(Node::File(b)) if *n < b.len() => {
                t2.insert(g.clone(), Node::File(b[..*n].to_vec()));
            }
            _ => return None,
        },
    }
    if t2 == *t {
        return None;
    }
    Some(t2)
}

/// states never contain directory nodes (directories are implied by the files in them)
pub fn state_of(s: &Snapshot) -> Tree {
    let mut t = snap_tree(s);
    t.retain(|_, v| *v != Node::Dir);
    t
}

pub fn tree_key(t: &Tree) -> u64 {
    let mut h = 0xcbf29ce484222325u64;
    let mut feed = |b: &[u8]| {
        for &x in b {
            h ^= x as u64;
            h = h.wrapping_mul(0x100000001b3);
        }
        h ^= 0xff;
        h = h.wrapping_mul(0x100000001b3);
    };
    for (k, v) in t {
        feed(k.as_bytes());
        match v {
            Node::File(b) => {
                feed(b"F");
                feed(b)
            }
            Node::Dir => feed(b"D"),
            Node::Link(l) => {
                feed(b"L");
                feed(l.as_bytes())
            }
        }
    }
    h
}

// ---------------------------------------------------------------- executing runs

pub struct Bench {
    pub scratch: Scratch,
}

#[derive(Clone, Debug)]
pub struct RunObs {
    pub ok: bool,
    pub abnormal: Option<String>,
    pub detail: String,
    pub before: Snapshot,
    pub after: Snapshot,
    pub markers: BTreeMap<String, usize>,
}

impl Bench {
    pub fn new() -> Self {
        Bench { scratch: Scratch::new() }
    }
    pub fn base(&self) -> std::path::PathBuf {
        self.scratch.p("p")
    }
    pub fn materialize(&self, t: &Tree) {
        let _ = std::fs::remove_dir_all(self.base());
        let _ = std::fs::remove_dir_all(self.scratch.p("m"));
        std::fs::create_dir_all(self.base()).unwrap();
        std::fs::create_dir_all(self.scratch.p("m")).unwrap();
        write_tree(&self.base(), t);
        set_sentinel(&self.base());
    }
    pub fn run(&self, _p: &Project, t: &Tree, mode: &Mode, sel: &Sel, tn: bool) -> RunObs {
        self.materialize(t);
        let before = snapshot(&self.base());
        let cfg = Config {
            base_dir: self.base(),
            shell_cmd: String::new(),
            inputs: sel.inputs.clone(),
            recursive: sel.recursive,
            num_threads: 1, // one worker thread: every task reuses it, so state leaking between tasks through the thread shows deterministically
            mode: mode.clone(),
            verbosity: Verbosity::Quiet,
            trailing_newline: tn,
        };
        let r = run_canonical(cfg);
        let after = snapshot(&self.base());
        let mut markers = BTreeMap::new();
        if let Ok(rd) = std::fs::read_dir(self.scratch.p("m")) {
            for e in rd.flatten() {
                let n = std::fs::read(e.path()).map(|b| b.iter().filter(|&&c| c == b'\n').count()).unwrap_or(0);
                markers.insert(e.file_name().to_string_lossy().to_string(), n);
            }
        }
        let abnormal = if !r.clean() { Some(format!("{} worker panics {:?}", r.verdict.kind(), r.worker_panics)) } else { None };
        RunObs { ok: r.verdict.is_ok(), abnormal, detail: crate::sched::first_lines(&r.verdict.detail(), 6), before, after, markers }
    }
}

#[derive(Clone, Debug)]
pub struct Fresh {
    pub ok: bool,
    pub files: BTreeMap<String, Vec<u8>>,
}

pub struct FreshCache {
    map: HashMap<(String, Vec<usize>, bool, usize), Fresh>,
}

impl FreshCache {
    pub fn new() -> Self {
        FreshCache { map: HashMap::new() }
    }
    /// what a build of a pristine copy of the current sources writes
    pub fn get(&mut self, b: &Bench, p: &Project, ver: &[usize], tn: bool, sel: usize) -> Fresh {
        let key = (p.name.clone(), ver.to_vec(), tn, sel);
        if let Some(f) = self.map.get(&key) {
            return f.clone();
        }
        let t = p.pristine(ver);
        let o = b.run(p, &t, &Mode::Build, &p.sels[sel], tn);
        let mut files = BTreeMap::new();
        for g in p.all_generated() {
            if let Some(Meta { node: Node::File(bytes), .. }) = o.after.get(&g) {
                files.insert(g, bytes.clone());
            }
        }
        let f = Fresh { ok: o.ok, files };
        self.map.insert(key, f.clone());
        f
    }
}

fn file_of<'a>(s: &'a Snapshot, path: &str) -> Option<&'a Vec<u8>> {
    match s.get(path) {
        Some(Meta { node: Node::File(b), .. }) => Some(b),
        _ => None,
    }
}

fn untouched(before: &Snapshot, after: &Snapshot, path: &str) -> bool {
    match (before.get(path), after.get(path)) {
        (Some(a), Some(b)) => a.node == b.node && a.ino == b.ino && a.mtime_ns == b.mtime_ns,
        (None, None) => true,
        _ => false,
    }
}

pub struct Finding {
    pub sig: String,
    pub msg: String,
}

fn f(sig: &str, msg: String) -> Finding {
    Finding { sig: sig.into(), msg }
}

/// Evaluate the invariants of one property on one RUN transition. `nontrivial` counts non-vacuous evaluations.
pub fn check_run(
    prop: &str,
    b: &Bench,
    p: &Project,
    fc: &mut FreshCache,
    t: &Tree,
    mode: &Mode,
    sel_i: usize,
    tn: bool,
    o: &RunObs,
    nontrivial: &mut BTreeMap<&'static str, u64>,
) -> Vec<Finding> {
    let sel = &p.sels[sel_i];
    let mut out = vec![];
    if let Some(a) = &o.abnormal {
        out.push(f("abnormal-end", format!("run ended abnormally: {a}")));
        return out;
    }
    let ver = p.versions(t);
    let proc_set = p.processed(sel, mode);
    let allowed = p.generated_of(&proc_set);
    let outs = p.outputs_of(&proc_set);
    let temps = p.temps_of(&proc_set);
    let mut bump = |k: &'static str| *nontrivial.entry(k).or_insert(0) += 1;
    match prop {
        "C10" => {
            for (path, how) in changed_paths(&o.before, &o.after) {
                if !allowed.contains(&path) {
                    out.push(f("foreign-path-touched", format!("{path} was {how}, but it is neither an output nor a temp target of the processed sources {:?}", proc_set)));
                } else {
                    bump("generated_paths_changed");
                }
                if *mode == Mode::Verify && p.all().iter().any(|&i| p.sources[i].output == path) {
                    out.push(f("verify-touched-output", format!("verify {how} the output {path}")));
                }
                if *mode == Mode::Clean && how == "created" {
                    out.push(f("clean-created", format!("clean created {path}")));
                }
            }
            bump("runs_checked");
        }
        "C06" => {
            if *mode != Mode::Verify {
                return out;
            }
            let fr = fc.get(b, p, &ver, tn, sel_i);
            let stale: Vec<&String> = outs.iter().filter(|o_| file_of(&o.before, o_).is_none() || file_of(&o.before, o_) != fr.files.get(*o_)).collect();
            let up_to_date = fr.ok && stale.is_empty();
            if up_to_date {
                bump("verify_must_pass");
            } else {
                bump("verify_must_fail");
                if fr.ok && stale.len() == 1 {
                    bump("verify_must_fail_exactly_one_stale_output");
                }
            }
            if o.ok && !up_to_date {
                out.push(f(
                    "verify-false-pass",
                    format!("verify succeeded although {:?} differ from what a build would write now (fresh build ok: {})", stale, fr.ok),
                ));
            }
            if !o.ok && up_to_date {
                out.push(f("verify-false-fail", format!("verify failed although every output is up to date: {}", o.detail)));
            }
            for src in &p.sources {
                if !untouched(&o.before, &o.after, &src.output) {
                    out.push(f("verify-modified-output", format!("verify created, modified or deleted the output {}", src.output)));
                }
            }
        }
        "C07" => {
            if *mode != Mode::Clean {
                return out;
            }
            bump("clean_runs");
            if !o.ok {
                out.push(f("clean-failed", format!("clean failed: {}", o.detail)));
            }
            if o.markers.values().any(|&n| n > 0) {
                out.push(f("clean-ran-command", format!("clean executed a run command (markers {:?})", o.markers)));
            }
            for (path, how) in changed_paths(&o.before, &o.after) {
                if how == "created" {
                    out.push(f("clean-created", format!("clean created {path}")));
                }
                if how == "deleted" && crate::model::is_source_name(crate::model::file_name(&path)) && !allowed.contains(&path) {
                    out.push(f("clean-deleted-source", format!("clean deleted the .txtpp file {path}")));
                }
                if !allowed.contains(&path) {
                    out.push(f("clean-touched-other-file", format!("clean {how} {path}")));
                }
            }
            // whatever was there before (outputs or temp targets may already be absent): after a successful clean
            // nothing generated by the named sources remains
            if o.ok {
                for g in &allowed {
                    if o.after.contains_key(g) {
                        bump("clean_must_remove_checks");
                        out.push(f("clean-left-generated-file", format!("clean succeeded but {g}, generated by a named source, is still there")));
                    }
                }
            }
            // built state for the same inputs -> exactly the pre-build tree
            for tn_b in [true, false] {
                let fr = fc.get(b, p, &ver, tn_b, sel_i);
                if !fr.ok {
                    continue;
                }
                let mut built = p.pristine(&ver);
                for (g, bytes) in &fr.files {
                    tfile(&mut built, g, bytes);
                }
                if built == *t {
                    bump("clean_from_freshly_built_state");
                    let after_tree = state_of(&o.after);
                    let want = p.pristine(&ver);
                    if after_tree != want {
                        let left: Vec<&String> = after_tree.keys().filter(|k| !want.contains_key(*k)).collect();
                        let dep_only = left.iter().all(|k| !p.generated_of(&sel.roots.iter().cloned().collect()).contains(k.as_str()));
                        out.push(f(
                            if dep_only { "clean-leaves-dependency-output" } else { "clean-incomplete" },
                            format!("build then clean of the same inputs does not restore the tree: left behind {:?}", left),
                        ));
                    }
                    break;
                }
            }
        }
        "C08" => {
            if *mode != Mode::Build {
                return out;
            }
            let fr = fc.get(b, p, &ver, tn, sel_i);
            let gen = p.generated_of(&proc_set);
            let pre_differs = gen.iter().any(|g| file_of(&o.before, g) != fr.files.get(g));
            if pre_differs {
                bump("builds_from_a_state_that_differs_from_fresh");
            } else {
                bump("rebuilds_of_an_up_to_date_tree");
            }
            if o.ok != fr.ok {
                out.push(f(
                    if gen.iter().any(|g| matches!(file_of(&o.before, g), Some(bytes) if std::str::from_utf8(bytes).is_err())) { "non-utf8-leftover" } else { "verdict-depends-on-prestate" },
                    format!("build {} here but {} from a pristine tree with the same sources: {}", if o.ok { "succeeds" } else { "fails" }, if fr.ok { "succeeds" } else { "fails" }, o.detail),
                ));
            } else if o.ok {
                for g in &gen {
                    if file_of(&o.after, g) != fr.files.get(g) {
                        out.push(f(
                            "build-depends-on-prestate",
                            format!("{g} is {:?} after the build, {:?} when built from a pristine tree", file_of(&o.after, g).map(|x| show(x)), fr.files.get(g).map(|x| show(x))),
                        ));
                    }
                }
            }
        }
        "C09" => {
            if *mode != Mode::InMemoryBuild {
                return out;
            }
            let fr = fc.get(b, p, &ver, tn, sel_i);
            let ob = b.run(p, t, &Mode::Build, sel, tn);
            let ov = b.run(p, t, &Mode::Verify, sel, tn);
            let nonutf8 = allowed.iter().any(|g| matches!(file_of(&o.before, g), Some(bytes) if std::str::from_utf8(bytes).is_err()));
            if o.ok != ob.ok {
                out.push(f(
                    if nonutf8 { "non-utf8-leftover" } else { "needed-verdict" },
                    format!("--needed {} but a normal build {}: {} {}", if o.ok { "succeeds" } else { "fails" }, if ob.ok { "succeeds" } else { "fails" }, o.detail, ob.detail),
                ));
            } else if o.ok {
                for g in &allowed {
                    if file_of(&o.after, g) != file_of(&ob.after, g) {
                        out.push(f("needed-differs-from-build", format!("{g}: --needed leaves {:?}, a normal build {:?}", file_of(&o.after, g).map(|x| show(x)), file_of(&ob.after, g).map(|x| show(x)))));
                    }
                }
            }
            if fr.ok {
                for g in &outs {
                    if file_of(&o.before, g).is_some() && file_of(&o.before, g) == fr.files.get(g) {
                        bump("outputs_that_must_stay_untouched");
                        if !untouched(&o.before, &o.after, g) {
                            out.push(f("needed-rewrote-unchanged-output", format!("--needed rewrote {g} although its content was already correct")));
                        }
                    } else if o.ok {
                        bump("outputs_that_must_be_rewritten");
                        if file_of(&o.after, g) != fr.files.get(g) {
                            out.push(f("needed-left-stale", format!("--needed left {g} stale or missing")));
                        }
                    }
                }
                for g in &temps {
                    if file_of(&o.before, g).is_some() && file_of(&o.before, g) == fr.files.get(g) {
                        bump("temps_that_must_stay_untouched");
                        for (how, obs) in [("--needed", o), ("build", &ob), ("verify", &ov)] {
                            if !untouched(&obs.before, &obs.after, g) {
                                out.push(f("rewrote-unchanged-temp", format!("{how} rewrote the temp target {g} although its content was already correct")));
                            }
                        }
                    } else if o.ok && file_of(&o.after, g) != fr.files.get(g) {
                        out.push(f("needed-left-stale", format!("--needed left the temp target {g} stale or missing")));
                    }
                }
            }
        }
        _ => {}
    }
    out
}

// ---------------------------------------------------------------- the search

pub struct HPlan {
    pub projects: Vec<&'static str>,
    pub depth: usize,
    pub prefixes: bool,
}

fn ops_for(p: &Project, t: &Tree, prop: &str, last_layer: bool, prefixes: bool) -> Vec<Op> {
    let mut v = vec![];
    for mode in MODES {
        if last_layer {
            let relevant = match prop {
                "C06" => mode == Mode::Verify,
                "C07" => mode == Mode::Clean,
                "C08" => mode == Mode::Build,
                "C09" => mode == Mode::InMemoryBuild,
                _ => true,
            };
            if !relevant {
                continue;
            }
        }
        for s in 0..p.sels.len() {
            for tn in [true, false] {
                if mode == Mode::Clean && !tn {
                    continue;
                }
                v.push(Op::Run { mode: mode.clone(), sel: s, tn });
            }
        }
    }
    if last_layer {
        return v;
    }
    for i in 0..p.sources.len() {
        v.push(Op::Edit(i));
    }
    for g in p.all_generated() {
        for k in TAMPERS {
            v.push(Op::Tamper(g.clone(), k.to_string()));
        }
        if prefixes {
            if let Some(Node::File(b)) = t.get(&g) {
                for n in 1..b.len() {
                    v.push(Op::Prefix(g.clone(), n));
                }
            }
        }
    }
    v
}

fn replay_json(prop: &str, p: &Project, hist: &[Op], op: &Op) -> Value {
    json!({"engine": "H", "prop": prop, "project": p.name, "history": hist.iter().map(|o| o.to_json()).collect::<Vec<_>>(), "op": op.to_json(),
           "readable": hist.iter().chain(std::iter::once(op)).map(|o| o.describe(p)).collect::<Vec<_>>()})
}

struct StateRec {
    tree: Tree,
    hist: Vec<Op>,
}

pub fn run_property(prop: &str, tier: &str) -> i32 {
    let rep = Report::new(prop, tier);
    let thorough = rep.thorough();
    let plans: Vec<(&str, usize, bool)> = if thorough {
        vec![("solo", 4, prop == "C08"), ("chain", 3, false), ("errsrc", 3, false), ("nested", 3, false), ("empty", 4, false), ("aligned", 2, false), ("big", 2, false), ("dotdep", 3, false), ("afteronly", 3, false)]
    } else {
        vec![("solo", 2, prop == "C08"), ("chain", 2, false), ("errsrc", 2, false), ("nested", 2, false), ("empty", 3, false), ("aligned", 2, false), ("dotdep", 2, false), ("afteronly", 2, false), ("big", 2, false)]
    };
    rep.set("bounds", json!(plans.iter().map(|(n, d, pf)| format!("{n}: depth {d}{}", if *pf { " + every byte-prefix" } else { "" })).collect::<Vec<_>>()));
    rep.set("operations", json!("RUN(mode in build/needed/verify/clean, input selection, trailing-newline on/off), EDIT(source i), TAMPER(generated path, 11 kinds)"));
    rep.assume("runs use the canonical schedule of the controller (schedules are explored by C02-C05); Fresh(sources) is obtained by building a pristine copy of the same sources with the implementation itself");
    rep.assume("state = content of the project tree; inode and mtime are observations of a transition (reset to a sentinel before every run)");
    for (pname, depth, prefixes) in plans {
        let p = project(pname);
        search(&rep, prop, &p, depth, prefixes);
        if rep.over_cap() {
            break;
        }
    }
    if matches!(prop, "C06" | "C08" | "C09") && !rep.over_cap() {
        byte_sweep(&rep, prop);
    }
    if !rep.over_cap() {
        cli_binding(&rep, prop);
    }
    if !rep.over_cap() {
        crate::eclean::run_into(&rep, prop);
    }
    if prop == "C08" {
        crate::crash::run_into(&rep);
    }
    if prop == "C10" && !rep.over_cap() {
        crate::strace10::run_into(&rep);
        crate::strace10::nonutf8_names(&rep);
    }
    rep.finish()
}

fn search(rep: &Report, prop: &str, p: &Project, depth: usize, prefixes: bool) {
    // the projects are hand-written: make sure they mean what they are meant to mean
    {
        let b = Bench::new();
        let mut fc = FreshCache::new();
        for (si, _) in p.sels.iter().enumerate() {
            let want_ok = !(p.name == "errsrc" && si != 1);
            let fr = fc.get(&b, p, &vec![0; p.sources.len()], true, si);
            if fr.ok != want_ok {
                rep.machinery(format!("project {} selection {si}: a pristine build gives ok={} but the project is written to give ok={want_ok}", p.name, fr.ok));
            }
            let fr1 = fc.get(&b, p, &vec![1; p.sources.len()], true, si);
            if fr.ok && fr1.ok && fr.files == fr1.files && p.name != "empty" && !p.sels[si].roots.is_empty() {
                rep.machinery(format!("project {}: editing the sources does not change any generated file", p.name));
            }
        }
    }
    // roots: pristine tree and freshly built tree
    let ver0 = vec![0; p.sources.len()];
    let pristine = p.pristine(&ver0);
    let built = {
        let b = Bench::new();
        let o = b.run(p, &pristine, &Mode::Build, &p.sels[0], true);
        let t = state_of(&o.after);
        (t, o.ok)
    };
    let mut seen: HashSet<u64> = HashSet::new();
    let mut frontier: Vec<StateRec> = vec![];
    for (t, h) in [(pristine.clone(), vec![]), (built.0.clone(), vec![Op::Run { mode: Mode::Build, sel: 0, tn: true }])] {
        if seen.insert(tree_key(&t)) {
            frontier.push(StateRec { tree: t, hist: h });
        }
    }
    rep.st(frontier.len());
    let dir = scratch_root().join(format!("succ-{}", p.name));
    let _ = std::fs::create_dir_all(&dir);
    for layer in 0..depth {
        let last = layer + 1 == depth;
        if frontier.is_empty() || rep.over_cap() {
            break;
        }
        rep.add_in("frontier_sizes", &format!("{}:layer{}", p.name, layer), frontier.len() as u64);
        let fr = &frontier;
        let dirc = dir.clone();
        sharded_dyn(rep, par_threads(), |k, _n, next, rep| {
            let b = Bench::new();
            let mut fc = FreshCache::new();
            let mut nontrivial: BTreeMap<&'static str, u64> = BTreeMap::new();
            let mut succ: Vec<String> = vec![];
            let mut local_seen: HashSet<u64> = HashSet::new();
            loop {
                let i = next();
                if i >= fr.len() {
                    break;
                }
                if rep.over_cap() {
                    rep.note_cap(&format!("wall-clock cap in project {} layer {} (layers below are complete)", p.name, layer));
                    break;
                }
                let s = &fr[i];
                for op in ops_for(p, &s.tree, prop, last, prefixes && layer + 2 == depth) {
                    let t2 = match &op {
                        Op::Run { mode, sel, tn } => {
                            let o = b.run(p, &s.tree, mode, &p.sels[*sel], *tn);
                            rep.tr(1);
                            rep.tv(1);
                            for fd in check_run(prop, &b, p, &mut fc, &s.tree, mode, *sel, *tn, &o, &mut nontrivial) {
                                rep.violate(
                                    &fd.sig,
                                    format!("[{}] {} :: {}", p.name, s.hist.iter().chain(std::iter::once(&op)).map(|o| o.describe(p)).collect::<Vec<_>>().join(" ; "), fd.msg),
                                    replay_json(prop, p, &s.hist, &op),
                                );
                            }
                            if i == 1 && matches!(mode, Mode::Verify) && *sel == 0 && *tn {
                                rep.sample(json!({"project": p.name, "history": s.hist.iter().chain(std::iter::once(&op)).map(|o| o.describe(p)).collect::<Vec<_>>(), "verdict_ok": o.ok}));
                            }
                            let t2 = state_of(&o.after);
                            t2
                        }
                        other => match apply_pure(p, &s.tree, other) {
                            Some(t2) => {
                                rep.tr(1);
                                t2
                            }
                            None => continue,
                        },
                    };
                    if !last {
                        let key = tree_key(&t2);
                        if local_seen.insert(key) {
                            let mut h = s.hist.clone();
                            h.push(op.clone());
                            succ.push(json!({"k": key.to_string(), "t": tree_json_compact(&t2), "h": h.iter().map(|o| o.to_json()).collect::<Vec<_>>()}).to_string());
                        }
                    }
                }
            }
            for (k2, v) in nontrivial {
                rep.add_in("nontrivial", k2, v);
            }
            if !last {
                std::fs::write(dirc.join(format!("{k}.jsonl")), succ.join("\n")).unwrap();
            }
        });
        if last {
            break;
        }
        let mut nextf = vec![];
        for k in 0..par_threads() {
            let path = dir.join(format!("{k}.jsonl"));
            if let Ok(text) = std::fs::read_to_string(&path) {
                for line in text.lines() {
                    if let Ok(v) = serde_json::from_str::<Value>(line) {
                        let key: u64 = v["k"].as_str().unwrap().parse().unwrap();
                        if seen.insert(key) {
                            nextf.push(StateRec {
                                tree: tree_from_json_compact(&v["t"]),
                                hist: v["h"].as_array().unwrap().iter().map(Op::from_json).collect(),
                            });
                        }
                    }
                }
            }
            let _ = std::fs::remove_file(&path);
        }
        rep.st(nextf.len());
        frontier = nextf;
    }
    let _ = std::fs::remove_dir_all(&dir);
    rep.add_in("distinct_states", &p.name, seen.len() as u64);
}

/// Every single-byte substitution (all 255 other values), deletion and insertion at every offset of every
/// generated file of a freshly built project: verify must fail (C06), --needed must repair (C09), build must
/// repair temp targets (C08; outputs are truncated by build anyway).
fn byte_sweep(rep: &Report, prop: &str) {
    let projects: Vec<&str> = if rep.thorough() { vec!["solo", "chain", "nested", "errsrc", "empty", "aligned", "big"] } else { vec!["solo", "chain", "empty", "aligned"] };
    for pname in projects {
        let p = project(pname);
        // a selection whose fresh build succeeds
        let sel_i = if pname == "errsrc" { 1 } else { 0 };
        let ver = vec![0; p.sources.len()];
        let probe = Bench::new();
        let mut fc = FreshCache::new();
        let fr = fc.get(&probe, &p, &ver, true, sel_i);
        if !fr.ok {
            rep.machinery(format!("byte sweep: fresh build of {pname} failed: {:?}", probe.run(&p, &p.pristine(&ver), &Mode::Build, &p.sels[sel_i], true).detail));
            continue;
        }
        let proc_set = p.processed(&p.sels[sel_i], &Mode::Build);
        let targets: Vec<(String, bool)> = match prop {
            "C06" => p.outputs_of(&proc_set).into_iter().map(|o| (o, true)).collect(),
            "C09" => p.outputs_of(&proc_set).into_iter().map(|o| (o, true)).chain(p.temps_of(&proc_set).into_iter().map(|t| (t, false))).collect(),
            _ => p.temps_of(&proc_set).into_iter().map(|t| (t, false)).collect(),
        };
        let mut built = p.pristine(&ver);
        for (g, bytes) in &fr.files {
            tfile(&mut built, g, bytes);
        }
        // work items: (target index, offset)
        let mut items = vec![];
        for (ti, (g, _)) in targets.iter().enumerate() {
            let n = fr.files.get(g).map(|b| b.len()).unwrap_or(0);
            for off in 0..=n {
                // large files: the offsets around the 8 KiB buffer boundaries and the ends
                if n > 1024 && !(off < 2 || off + 2 > n || (off + 2) % 8192 < 4 || off == n / 2) {
                    continue;
                }
                items.push((ti, off));
            }
        }
        let mode = match prop {
            "C06" => Mode::Verify,
            "C09" => Mode::InMemoryBuild,
            _ => Mode::Build,
        };
        sharded_dyn(rep, par_threads(), |_k, _n, next, rep| {
            let b = Bench::new();
            b.materialize(&built);
            let sel = &p.sels[sel_i];
            let cfg = || Config {
                base_dir: b.base(),
                shell_cmd: String::new(),
                inputs: sel.inputs.clone(),
                recursive: sel.recursive,
                num_threads: 1, // one worker thread: every task reuses it, so state leaking between tasks through the thread shows deterministically
                mode: mode.clone(),
                verbosity: Verbosity::Quiet,
                trailing_newline: true,
            };
            loop {
                let i = next();
                if i >= items.len() {
                    break;
                }
                if rep.over_cap() {
                    rep.note_cap("wall-clock cap in the single-byte sweep");
                    break;
                }
                let (ti, off) = items[i];
                let (g, _is_out) = &targets[ti];
                let orig = fr.files[g].clone();
                let path = b.base().join(g);
                let mut variants: Vec<(String, Vec<u8>)> = vec![];
                if off < orig.len() {
                    for v in 0..=255u8 {
                        if v != orig[off] {
                            let mut x = orig.clone();
                            x[off] = v;
                            variants.push((format!("byte {off} := 0x{v:02x}"), x));
                        }
                    }
                    let mut x = orig.clone();
                    x.remove(off);
                    variants.push((format!("byte {off} deleted"), x));
                }
                for v in [b'Z', 0x80, b'\n'] {
                    let mut x = orig.clone();
                    x.insert(off, v);
                    variants.push((format!("0x{v:02x} inserted at {off}"), x));
                }
                for (what, bytes) in variants {
                    if bytes == orig {
                        continue;
                    }
                    std::fs::write(&path, &bytes).unwrap();
                    let r = run_canonical(cfg());
                    rep.tv(1);
                    rep.tr(1);
                    rep.add_in("nontrivial", "single_byte_tamperings", 1);
                    let now = std::fs::read(&path).ok();
                    let bad = match prop {
                        "C06" => {
                            if r.verdict.is_ok() || !r.clean() {
                                Some(format!("verify {} although {g} differs from the fresh output ({what})", r.verdict.kind()))
                            } else if now.as_deref() != Some(&bytes[..]) {
                                Some(format!("verify modified {g} ({what})"))
                            } else {
                                None
                            }
                        }
                        _ => {
                            if !r.verdict.is_ok() || !r.clean() {
                                Some(format!("{:?} {} with {g} tampered ({what}): {}", mode, r.verdict.kind(), crate::sched::first_lines(&r.verdict.detail(), 3)))
                            } else if now.as_deref() != Some(&orig[..]) {
                                Some(format!("{:?} left {g} as {:?} ({what}), a fresh build writes {:?}", mode, now.as_ref().map(|x| show(x)), show(&orig)))
                            } else {
                                None
                            }
                        }
                    };
                    if let Some(msg) = bad {
                        rep.violate(
                            "single-byte-difference-not-noticed",
                            format!("[{pname}] {msg}"),
                            json!({"engine": "H-sweep", "prop": prop, "project": pname, "sel": sel_i, "path": g, "bytes_b64": b64(&bytes), "what": what}),
                        );
                        // restore a correct tree for the following cases
                        b.materialize(&built);
                    }
                }
                std::fs::write(&path, &orig).unwrap();
            }
        });
    }
}

/// DESIGN 4.8: the deciding runs use the library built with the `verif` feature. Every RUN transition from the
/// depth<=1 states of project solo is repeated through the production binary (feature off): exit code, resulting
/// tree and the set of rewritten paths must equal the in-process result. This also covers src/main.rs
/// (the mapping of -N, -n, -r, verify, clean).
fn cli_binding(rep: &Report, prop: &str) {
    // solo: all depth<=1 states; chain and nested (input selection, recursion and dependencies matter): the two roots
    for (pname, deep) in [("solo", true), ("chain", false), ("nested", false)] {
        cli_binding_project(rep, prop, pname, deep);
    }
}

fn cli_binding_project(rep: &Report, prop: &str, pname: &str, deep: bool) {
    let p = project(pname);
    let ver0 = vec![0; p.sources.len()];
    let pristine = p.pristine(&ver0);
    let built = {
        let b = Bench::new();
        state_of(&b.run(&p, &pristine, &Mode::Build, &p.sels[0], true).after)
    };
    let mut states: Vec<(Tree, Vec<Op>)> = vec![(pristine.clone(), vec![]), (built.clone(), vec![Op::Run { mode: Mode::Build, sel: 0, tn: true }])];
    let mut seen: HashSet<u64> = states.iter().map(|s| tree_key(&s.0)).collect();
    for (t, h) in states.clone() {
        if !deep {
            break;
        }
        for op in ops_for(&p, &t, prop, false, false) {
            if let Some(t2) = apply_pure(&p, &t, &op) {
                if seen.insert(tree_key(&t2)) {
                    let mut h2 = h.clone();
                    h2.push(op);
                    states.push((t2, h2));
                }
            }
        }
    }
    if !rep.thorough() {
        // quick: the two roots and every third depth-1 state
        let mut k = 0;
        states.retain(|_| {
            k += 1;
            k <= 2 || k % 3 == 0
        });
    }
    let mut jobs = vec![];
    for (si, _) in states.iter().enumerate() {
        for op in ops_for(&p, &states[si].0, prop, true, false) {
            // (the binary cannot express an empty input list: it means the current directory there)
            if matches!(&op, Op::Run { sel, .. } if p.sels[*sel].inputs.is_empty()) {
                continue;
            }
            jobs.push((si, op));
        }
    }
    rep.add("production_binary_transitions", jobs.len() as u64);
    sharded_dyn(rep, par_threads() * 3, |_k, _n, next, rep| {
        let b = Bench::new();
        loop {
            let i = next();
            if i >= jobs.len() {
                break;
            }
            if rep.over_cap() {
                rep.note_cap("wall-clock cap in the production-binary binding");
                break;
            }
            let (si, op) = &jobs[i];
            let (t, h) = &states[*si];
            if let Op::Run { mode, sel, tn } = op {
                let lib = b.run(&p, t, mode, &p.sels[*sel], *tn);
                // the sub-commands are also driven with the top-level -N flag in front of them: verify stays verify and
                // clean stays clean (or the command line is rejected: exit 2, nothing touched)
                let variants: &[bool] = if matches!(mode, Mode::Verify | Mode::Clean) { &[false, true] } else { &[false] };
                for &needed_prefix in variants {
                b.materialize(t);
                let before = snapshot(&b.base());
                let args = cli_args(&p, mode, *sel, *tn, needed_prefix);
                let a: Vec<&str> = args.iter().map(|s| s.as_str()).collect();
                let (code, to) = run_cli(&b.base(), &a, &[], 30.0);
                let after = snapshot(&b.base());
                rep.tv(1);
                rep.tr(1);
                if needed_prefix {
                    rep.add("subcommand_runs_with_needed_flag", 1);
                }
                let rew = |b4: &Snapshot, af: &Snapshot| changed_paths(b4, af).into_iter().filter(|(p_, _)| af.get(p_).map(|m| m.node != Node::Dir).unwrap_or(true)).collect::<Vec<_>>();
                let rejected = needed_prefix && !to && code == 2 && rew(&before, &after).is_empty();
                let same = rejected || (!to && (code == 0) == lib.ok && (code == 0 || code == 1) && state_of(&after) == state_of(&lib.after) && rew(&before, &after) == rew(&lib.before, &lib.after));
                if !same {
                    rep.violate(
                        "binary-differs-from-library",
                        format!(
                            "[{pname}] {} ; txtpp {:?}: exit {code} (timeout {to}), rewrote {:?}; the library run {} and rewrote {:?}{}",
                            h.iter().map(|o| o.describe(&p)).collect::<Vec<_>>().join(" ; "),
                            args,
                            rew(&before, &after),
                            if lib.ok { "succeeds" } else { "fails" },
                            rew(&lib.before, &lib.after),
                            if state_of(&after) != state_of(&lib.after) { "; resulting trees differ" } else { "" }
                        ),
                        json!({"engine": "H-cli", "prop": prop, "project": pname, "history": h.iter().map(|o| o.to_json()).collect::<Vec<_>>(), "op": op.to_json(), "needed_prefix": needed_prefix}),
                    );
                }
                }
            }
        }
    });
}

fn cli_args(p: &Project, mode: &Mode, sel: usize, tn: bool, needed_prefix: bool) -> Vec<String> {
    let mut args: Vec<String> = if needed_prefix { vec!["-N".into()] } else { vec![] };
    match mode {
        Mode::Build => {}
        Mode::InMemoryBuild => args.push("-N".into()),
        Mode::Verify => args.push("verify".into()),
        Mode::Clean => args.push("clean".into()),
    }
    args.push("-q".into());
    if !tn && *mode != Mode::Clean {
        args.push("-n".into());
    }
    if p.sels[sel].recursive {
        args.push("-r".into());
    }
    args.extend(p.sels[sel].inputs.iter().cloned());
    args
}

pub fn replay_cli(v: &Value) -> bool {
    let p = project(v["project"].as_str().unwrap_or("solo"));
    let hist: Vec<Op> = v["history"].as_array().map(|a| a.iter().map(Op::from_json).collect()).unwrap_or_default();
    let op = Op::from_json(&v["op"]);
    let b = Bench::new();
    let mut t = p.pristine(&vec![0; p.sources.len()]);
    for h in &hist {
        match h {
            Op::Run { mode, sel, tn } => t = state_of(&b.run(&p, &t, mode, &p.sels[*sel], *tn).after),
            other => {
                if let Some(t2) = apply_pure(&p, &t, other) {
                    t = t2
                }
            }
        }
    }
    if let Op::Run { mode, sel, tn } = &op {
        let lib = b.run(&p, &t, mode, &p.sels[*sel], *tn);
        b.materialize(&t);
        let before = snapshot(&b.base());
        let needed_prefix = v["needed_prefix"].as_bool().unwrap_or(false);
        let args = cli_args(&p, mode, *sel, *tn, needed_prefix);
        let a: Vec<&str> = args.iter().map(|s| s.as_str()).collect();
        let (code, to) = run_cli(&b.base(), &a, &[], 30.0);
        let after = snapshot(&b.base());
        println!("replay: txtpp {:?} exit {code}; library ok={}; binary rewrote {:?}, library rewrote {:?}", args, lib.ok, changed_paths(&before, &after), changed_paths(&lib.before, &lib.after));
        let rew = |b4: &Snapshot, af: &Snapshot| changed_paths(b4, af).into_iter().filter(|(p_, _)| af.get(p_).map(|m| m.node != Node::Dir).unwrap_or(true)).collect::<Vec<_>>();
        if needed_prefix && !to && code == 2 && rew(&before, &after).is_empty() {
            return false;
        }
        return to || (code == 0) != lib.ok || state_of(&after) != state_of(&lib.after) || rew(&before, &after) != rew(&lib.before, &lib.after);
    }
    false
}

pub fn replay_sweep(v: &Value) -> bool {
    let prop = v["prop"].as_str().unwrap_or("C06");
    let p = project(v["project"].as_str().unwrap_or("solo"));
    let sel_i = v["sel"].as_u64().unwrap_or(0) as usize;
    let b = Bench::new();
    let mut fc = FreshCache::new();
    let ver = vec![0; p.sources.len()];
    let fr = fc.get(&b, &p, &ver, true, sel_i);
    let mut built = p.pristine(&ver);
    for (g, bytes) in &fr.files {
        tfile(&mut built, g, bytes);
    }
    let g = v["path"].as_str().unwrap_or("");
    let bytes = unb64(v["bytes_b64"].as_str().unwrap_or(""));
    tfile(&mut built, g, &bytes);
    let mode = match prop {
        "C06" => Mode::Verify,
        "C09" => Mode::InMemoryBuild,
        _ => Mode::Build,
    };
    let o = b.run(&p, &built, &mode, &p.sels[sel_i], true);
    let now = match o.after.get(g) {
        Some(Meta { node: Node::File(x), .. }) => Some(x.clone()),
        _ => None,
    };
    println!("replay: {g} := {:?} ({}); {:?} -> ok={} ; file now {:?}", show(&bytes), v["what"], mode, o.ok, now.as_ref().map(|x| show(x)));
    match prop {
        "C06" => o.ok || now.as_deref() != Some(&bytes[..]),
        _ => !o.ok || now.as_ref() != fr.files.get(g),
    }
}

fn tree_json_compact(t: &Tree) -> Value {
    let mut m = serde_json::Map::new();
    for (k, v) in t {
        m.insert(
            k.clone(),
            match v {
                Node::File(b) => json!(b64(b)),
                Node::Dir => json!({"d": 1}),
                Node::Link(l) => json!({"l": l}),
            },
        );
    }
    Value::Object(m)
}

fn tree_from_json_compact(v: &Value) -> Tree {
    let mut t = Tree::new();
    for (k, e) in v.as_object().unwrap() {
        t.insert(
            k.clone(),
            match e {
                Value::String(s) => Node::File(unb64(s)),
                o if o.get("l").is_some() => Node::Link(o["l"].as_str().unwrap().to_string()),
                _ => Node::Dir,
            },
        );
    }
    t
}

/// Re-execute a recorded history and its last operation; true if the finding is still there
pub fn replay(v: &Value) -> bool {
    let prop = v["prop"].as_str().unwrap_or("");
    let p = project(v["project"].as_str().unwrap_or("solo"));
    let hist: Vec<Op> = v["history"].as_array().map(|a| a.iter().map(Op::from_json).collect()).unwrap_or_default();
    let op = Op::from_json(&v["op"]);
    let b = Bench::new();
    let mut fc = FreshCache::new();
    let mut t = p.pristine(&vec![0; p.sources.len()]);
    for h in &hist {
        println!("  {}", h.describe(&p));
        match h {
            Op::Run { mode, sel, tn } => {
                let o = b.run(&p, &t, mode, &p.sels[*sel], *tn);
                t = state_of(&o.after);
            }
            other => {
                if let Some(t2) = apply_pure(&p, &t, other) {
                    t = t2;
                }
            }
        }
    }
    println!("  {}   <- checked", op.describe(&p));
    if let Op::Run { mode, sel, tn } = &op {
        let o = b.run(&p, &t, mode, &p.sels[*sel], *tn);
        println!("  verdict ok={} {}", o.ok, o.detail);
        let mut nt = BTreeMap::new();
        let fs = check_run(prop, &b, &p, &mut fc, &t, mode, *sel, *tn, &o, &mut nt);
        for x in &fs {
            println!("  FINDING [{}] {}", x.sig, x.msg);
        }
        return !fs.is_empty();
    }
    false
}

pub fn _unused(_: &Path) {}
