//! Bounded-exhaustive sources for C07 and C10 (the `inputs` part of their quantifiers): clean must agree
//! with build about what was generated, for every source over an alphabet rich in directive look-alikes
//! inside multi-line directives; no mode may touch anything but the output and the named temp targets.
#![allow(dead_code)]

use crate::elines::*;
use crate::model::temp_targets;
use crate::util::*;
use serde_json::json;
use std::collections::BTreeSet;
use txtpp::Mode;

pub const SIGMA_CLEAN: [&str; 13] = [
    "x",
    "-TXTPP#write w",
    "-TXTPP#temp t.out",
    "-TXTPP#temp keep.txt",
    "  -TXTPP#temp sub/keep2.txt",
    "-TXTPP#include nl.txt",
    "-TXTPP#run echo x >> ../m/k",
    "-TXTPP#tag T",
    "T",
    "+TXTPP#",
    "-body",
    "TXTPP#run true",
    "-TXTPP#",
];

fn helpers_clean() -> Tree {
    let mut t = Tree::new();
    tfile(&mut t, "nl.txt", "p\nq\n");
    tfile(&mut t, "keep.txt", "keep me\n");
    tfile(&mut t, "sub/keep2.txt", "keep me too\n");
    tfile(&mut t, "t.outx", "near miss\n");
    tfile(&mut t, "s.txt.bak", "near miss\n");
    t
}

fn markers(b: &Bench) -> usize {
    std::fs::read(b.scratch.p("m/k")).map(|x| x.len()).unwrap_or(0)
}

fn reset_tree(b: &Bench, help: &Tree, src: &[u8]) {
    let _ = std::fs::remove_dir_all(&b.base);
    std::fs::create_dir_all(&b.base).unwrap();
    std::fs::create_dir_all(b.scratch.p("m")).unwrap();
    write_tree(&b.base, help);
    std::fs::write(b.base.join(SRC), src).unwrap();
    set_sentinel(&b.base);
}

fn rj(prop: &str, src: &[u8], what: &str) -> serde_json::Value {
    json!({"engine": "E-clean", "prop": prop, "source_b64": b64(src), "source": show(src), "what": what})
}

fn files_changed(before: &Snapshot, after: &Snapshot) -> Vec<(String, &'static str)> {
    changed_paths(before, after).into_iter().filter(|(p, _)| before.get(p).or(after.get(p)).map(|m| m.node != Node::Dir).unwrap_or(true)).collect()
}

pub fn check_source(rep: &Report, prop: &str, b: &Bench, help: &Tree, src: &[u8]) {
    let text = String::from_utf8_lossy(src).to_string();
    let temps = match temp_targets(&text) {
        Some(t) => t,
        None => return,
    };
    let mut allowed: BTreeSet<String> = temps.iter().filter_map(|t| crate::model::resolve("", t)).collect();
    if prop == "C07" && allowed.iter().any(|t| help.contains_key(t)) {
        // a real temp directive (also one after a directive error, which clean ignores) names a pre-existing
        // file: ill-formed project (D1), build would overwrite it
        rep.add("sources_whose_temp_target_is_an_existing_file", 1);
        return;
    }
    allowed.insert(OUT.to_string());
    if prop == "C07" {
        // (a) clean without build: nothing was generated, nothing may change, nothing may run
        reset_tree(b, help, src);
        let before = snapshot(&b.base);
        let m0 = markers(b);
        let r = b.run_no_reset(Mode::Clean, true, true);
        rep.tv(1);
        rep.tr(1);
        let after = snapshot(&b.base);
        let ch = files_changed(&before, &after);
        if r.v != V::Ok {
            rep.violate("clean-failed", format!("source {:?}: clean of an unbuilt tree: {}", show(src), r.v.kind()), rj(prop, src, "clean-only"));
        }
        if !ch.is_empty() {
            rep.violate("clean-without-build-changed-files", format!("source {:?}: clean of a tree without generated files changed {:?}", show(src), ch), rj(prop, src, "clean-only"));
        }
        if markers(b) != m0 {
            rep.violate("clean-ran-command", format!("source {:?}: clean executed a run command", show(src)), rj(prop, src, "clean-only"));
        }
        // (b) build, then clean
        reset_tree(b, help, src);
        let pre = snapshot(&b.base);
        let rb = b.run_no_reset(Mode::Build, true, true);
        rep.tv(1);
        let post = snapshot(&b.base);
        let chb = files_changed(&pre, &post);
        if chb.iter().any(|(_, how)| *how != "created") {
            rep.add("sources_whose_build_overwrites_an_existing_file", 1);
            return; // ill-formed project (a temp target coincides with an existing file): outside D1
        }
        let created: BTreeSet<String> = chb.iter().map(|(p, _)| p.clone()).collect();
        set_sentinel(&b.base);
        let post = snapshot(&b.base);
        let m1 = markers(b);
        let rc = b.run_no_reset(Mode::Clean, true, true);
        rep.tv(1);
        rep.tr(1);
        let fin = snapshot(&b.base);
        if rc.v != V::Ok {
            rep.violate("clean-failed", format!("source {:?}: clean after build: {}", show(src), rc.v.kind()), rj(prop, src, "build-clean"));
        }
        if markers(b) != m1 {
            rep.violate("clean-ran-command", format!("source {:?}: clean executed a run command", show(src)), rj(prop, src, "build-clean"));
        }
        for (p, how) in files_changed(&post, &fin) {
            if !created.contains(&p) || how != "deleted" {
                rep.violate("clean-touched-other-file", format!("source {:?}: clean {how} {p}, which build did not generate", show(src)), rj(prop, src, "build-clean"));
            }
        }
        if rb.v == V::Ok {
            rep.add("build_then_clean_round_trips", 1);
            if snap_tree(&fin) != snap_tree(&pre) {
                let left: Vec<&String> = fin.keys().filter(|k| !pre.contains_key(*k)).collect();
                rep.violate("clean-incomplete", format!("source {:?}: build then clean leaves {:?}", show(src), left), rj(prop, src, "build-clean"));
            }
        }
    } else {
        // C10: no mode may touch anything but the output and the temp targets named by real temp directives
        for (mode, from_built) in [(Mode::Build, false), (Mode::InMemoryBuild, false), (Mode::Verify, false), (Mode::Clean, false), (Mode::InMemoryBuild, true), (Mode::Verify, true), (Mode::Clean, true)] {
            reset_tree(b, help, src);
            if from_built {
                let _ = b.run_no_reset(Mode::Build, true, true);
                set_sentinel(&b.base);
            }
            let before = snapshot(&b.base);
            let r = b.run_no_reset(mode.clone(), true, true);
            rep.tv(1);
            rep.tr(1);
            let after = snapshot(&b.base);
            if let V::Panic(p) = &r.v {
                rep.violate("panic", format!("source {:?} mode {:?}: panic {p}", show(src), mode), rj(prop, src, "modes"));
            }
            for (p, how) in changed_paths(&before, &after) {
                if !allowed.contains(&p) {
                    rep.violate(
                        "foreign-path-touched",
                        format!("source {:?} mode {:?}{}: {p} was {how}; the source's output is {OUT} and its temp directives name {:?}", show(src), mode, if from_built { " (after a build)" } else { "" }, temps),
                        rj(prop, src, "modes"),
                    );
                } else {
                    rep.add("generated_paths_changed_in_source_enumeration", 1);
                }
                if mode == Mode::Verify && p == OUT {
                    rep.violate("verify-touched-output", format!("source {:?}: verify {how} the output", show(src)), rj(prop, src, "modes"));
                }
                if mode == Mode::Clean && how == "created" {
                    rep.violate("clean-created", format!("source {:?}: clean created {p}", show(src)), rj(prop, src, "modes"));
                }
            }
        }
    }
}

pub fn run_into(rep: &Report, prop: &str) {
    let max_len = if rep.thorough() { 5 } else { 3 };
    let help = helpers_clean();
    rep.set("source_enumeration_alphabet", json!(SIGMA_CLEAN));
    rep.set("source_enumeration_bound", json!(format!("all sources of <= {max_len} lines over the 13-line alphabet above (directive look-alikes as continuation lines of multi-line directives, temp directives naming pre-existing files)")));
    sharded_dyn(rep, par_threads(), |_k, _n, next, rep| {
        let b = Bench::new(&help);
        let stop = || rep.over_cap();
        for_each_seq(SIGMA_CLEAN.len(), max_len, next, &stop, &mut |seq| {
            let lines: Vec<&str> = seq.iter().map(|&i| SIGMA_CLEAN[i]).collect();
            let src = build_source(&lines, false, true);
            check_source(rep, prop, &b, &help, &src);
            rep.add("sources_enumerated", 1);
            if seq == [1, 3] {
                rep.sample(json!({"source": show(&src), "note": "the second line is text written by `write`, not a temp directive"}));
            }
        });
        if rep.over_cap() {
            rep.note_cap("wall-clock cap in the source enumeration");
        }
    });
}

pub fn replay(v: &serde_json::Value) -> bool {
    let prop = v["prop"].as_str().unwrap_or("C07");
    let src = unb64(v["source_b64"].as_str().unwrap_or(""));
    let help = helpers_clean();
    let b = Bench::new(&help);
    let rep = Report::new(prop, "quick");
    check_source(&rep, prop, &b, &help, &src);
    for x in rep.violations.lock().unwrap().iter() {
        println!("  [{}] {}", x.signature, x.message);
    }
    rep.n_violations() > 0
}
