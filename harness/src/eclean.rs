//! Bounded-exhaustive sources for C07 and C10 (the `inputs` part of their quantifiers): clean must agree
//! with build about what was generated, for every source over an alphabet rich in directive look-alikes
//! inside multi-line directives; no mode may touch anything but the output and the named temp targets.
#![allow(dead_code)]

use crate::elines::*;
use crate::model::temp_targets;
use crate::util::*;
use serde_json::json;
use std::collections::BTreeSet;
use txtpp::Mode;

pub const SIGMA_CLEAN: [&str; 22] = [
    "+TXTPP#temp sub/t3.out",
    "-TXTPP#temp ./t4.out",
    "-TXTPP#include missing.txt",
    "TXTPP#after nl.txt",
    "x",
    "-TXTPP#write w",
    "-TXTPP#temp t.out",
    "-TXTPP#temp keep.txt",
    "  -TXTPP#temp sub/keep2.txt",
    "-TXTPP#include nl.txt",
    "-TXTPP#run echo x >> ../m/k",
    "-TXTPP#tag T",
    "T",
    "+TXTPP#",
    "-body",
    "TXTPP#run true",
    "-TXTPP#",
    "-TXTPP#temp h.txtpp.txt",
    "TXTPP#temp keep.txt",
    "-TXTPP#temp lnk.out",
    "TXTPP#after ghost.txt",
    "-TXTPP#temp ../m/t5.out",
];

/// a temp target outside the base directory (in the scratch directory next to it)
const OUTSIDE: &str = "m/t5.out";

/// temp target that is a (dangling) symbolic link: the file behind it is what build creates and clean removes
const LINK_TARGET: (&str, &str) = ("lnk.out", "sub/real2.out");

fn helpers_clean() -> Tree {
    let mut t = Tree::new();
    tfile(&mut t, "nl.txt", "p\nq\n");
    tfile(&mut t, "keep.txt", "keep me\n");
    tfile(&mut t, "sub/keep2.txt", "keep me too\n");
    tfile(&mut t, "t.outx", "near miss\n");
    tfile(&mut t, "s.txt.bak", "near miss\n");
    // an existing txtpp source in the infix name shape: a temp directive naming it is an error, never a target
    tfile(&mut t, "h.txtpp.txt", "another source\n");
    t.insert(LINK_TARGET.0.to_string(), Node::Link(LINK_TARGET.1.to_string()));
    t
}

fn markers(b: &Bench) -> usize {
    std::fs::read(b.scratch.p("m/k")).map(|x| x.len()).unwrap_or(0)
}

fn reset_tree(b: &Bench, help: &Tree, src: &[u8]) {
    let _ = std::fs::remove_dir_all(&b.base);
    std::fs::create_dir_all(&b.base).unwrap();
    std::fs::create_dir_all(b.scratch.p("m")).unwrap();
    let _ = std::fs::remove_file(b.scratch.p(OUTSIDE));
    write_tree(&b.base, help);
    std::fs::write(b.base.join(SRC), src).unwrap();
    set_sentinel(&b.base);
}

fn rj(prop: &str, src: &[u8], what: &str) -> serde_json::Value {
    json!({"engine": "E-clean", "prop": prop, "source_b64": b64(src), "source": show(src), "what": what})
}

fn files_changed(before: &Snapshot, after: &Snapshot) -> Vec<(String, &'static str)> {
    changed_paths(before, after).into_iter().filter(|(p, _)| before.get(p).or(after.get(p)).map(|m| m.node != Node::Dir).unwrap_or(true)).collect()
}

pub fn check_source(rep: &Report, prop: &str, b: &Bench, help: &Tree, src: &[u8]) {
    let text = String::from_utf8_lossy(src).to_string();
    let temps = match temp_targets(&text) {
        Some(t) => t,
        None => return,
    };
    let mut allowed: BTreeSet<String> = temps.iter().filter_map(|t| crate::model::resolve("", t)).collect();
    if allowed.remove(LINK_TARGET.0) {
        allowed.insert(LINK_TARGET.1.to_string());
    }
    if prop == "C07" && allowed.iter().any(|t| help.contains_key(t)) {
        // a real temp directive (also one after a directive error, which clean ignores) names a pre-existing
        // file: ill-formed project (D1), build would overwrite it
        rep.add("sources_whose_temp_target_is_an_existing_file", 1);
        return;
    }
    allowed.insert(OUT.to_string());
    if matches!(prop, "C06" | "C08" | "C09") {
        mini_histories(rep, prop, b, help, src);
        return;
    }
    if prop == "C07" {
        // (a) clean without build: nothing was generated, nothing may change, nothing may run
        reset_tree(b, help, src);
        let before = snapshot(&b.base);
        let m0 = markers(b);
        let r = b.run_no_reset(Mode::Clean, true, true);
        rep.tv(1);
        rep.tr(1);
        let after = snapshot(&b.base);
        let ch = files_changed(&before, &after);
        if r.v != V::Ok {
            rep.violate("clean-failed", format!("source {:?}: clean of an unbuilt tree: {}", show(src), r.v.kind()), rj(prop, src, "clean-only"));
        }
        if !ch.is_empty() {
            rep.violate("clean-without-build-changed-files", format!("source {:?}: clean of a tree without generated files changed {:?}", show(src), ch), rj(prop, src, "clean-only"));
        }
        if markers(b) != m0 {
            rep.violate("clean-ran-command", format!("source {:?}: clean executed a run command", show(src)), rj(prop, src, "clean-only"));
        }
        // (b) build, then clean
        reset_tree(b, help, src);
        let pre = snapshot(&b.base);
        let rb = b.run_no_reset(Mode::Build, true, true);
        rep.tv(1);
        let post = snapshot(&b.base);
        let chb = files_changed(&pre, &post);
        if chb.iter().any(|(_, how)| *how != "created") {
            rep.add("sources_whose_build_overwrites_an_existing_file", 1);
            return; // ill-formed project (a temp target coincides with an existing file): outside D1
        }
        let created: BTreeSet<String> = chb.iter().map(|(p, _)| p.clone()).collect();
        set_sentinel(&b.base);
        let post = snapshot(&b.base);
        let m1 = markers(b);
        let rc = b.run_no_reset(Mode::Clean, true, true);
        rep.tv(1);
        rep.tr(1);
        let fin = snapshot(&b.base);
        if rc.v != V::Ok {
            rep.violate("clean-failed", format!("source {:?}: clean after build: {}", show(src), rc.v.kind()), rj(prop, src, "build-clean"));
        }
        if markers(b) != m1 {
            rep.violate("clean-ran-command", format!("source {:?}: clean executed a run command", show(src)), rj(prop, src, "build-clean"));
        }
        for (p, how) in files_changed(&post, &fin) {
            if !created.contains(&p) || how != "deleted" {
                rep.violate("clean-touched-other-file", format!("source {:?}: clean {how} {p}, which build did not generate", show(src)), rj(prop, src, "build-clean"));
            }
        }
        if b.scratch.p(OUTSIDE).exists() {
            rep.violate("clean-incomplete", format!("source {:?}: build then clean leaves the temp target ../{OUTSIDE} (outside the base directory)", show(src)), rj(prop, src, "build-clean"));
        }
        if rb.v == V::Ok {
            rep.add("build_then_clean_round_trips", 1);
            if snap_tree(&fin) != snap_tree(&pre) {
                let left: Vec<&String> = fin.keys().filter(|k| !pre.contains_key(*k)).collect();
                rep.violate("clean-incomplete", format!("source {:?}: build then clean leaves {:?}", show(src), left), rj(prop, src, "build-clean"));
            }
        }
    } else {
        // C10: no mode may touch anything but the output and the temp targets named by real temp directives
        for (mode, from_built) in [(Mode::Build, false), (Mode::InMemoryBuild, false), (Mode::Verify, false), (Mode::Clean, false), (Mode::InMemoryBuild, true), (Mode::Verify, true), (Mode::Clean, true)] {
            reset_tree(b, help, src);
            if from_built {
                let _ = b.run_no_reset(Mode::Build, true, true);
                set_sentinel(&b.base);
            }
            let before = snapshot(&b.base);
            let r = b.run_no_reset(mode.clone(), true, true);
            rep.tv(1);
            rep.tr(1);
            let after = snapshot(&b.base);
            if let V::Panic(p) = &r.v {
                rep.violate("panic", format!("source {:?} mode {:?}: panic {p}", show(src), mode), rj(prop, src, "modes"));
            }
            for (p, how) in changed_paths(&before, &after) {
                if !allowed.contains(&p) {
                    rep.violate(
                        "foreign-path-touched",
                        format!("source {:?} mode {:?}{}: {p} was {how}; the source's output is {OUT} and its temp directives name {:?}", show(src), mode, if from_built { " (after a build)" } else { "" }, temps),
                        rj(prop, src, "modes"),
                    );
                } else {
                    rep.add("generated_paths_changed_in_source_enumeration", 1);
                }
                if mode == Mode::Verify && p == OUT {
                    rep.violate("verify-touched-output", format!("source {:?}: verify {how} the output", show(src)), rj(prop, src, "modes"));
                }
                if mode == Mode::Clean && how == "created" {
                    rep.violate("clean-created", format!("source {:?}: clean created {p}", show(src)), rj(prop, src, "modes"));
                }
            }
        }
    }
}

fn meta_of(s: &Snapshot, p: &str) -> Option<(Vec<u8>, u64, i128)> {
    match s.get(p) {
        Some(Meta { node: Node::File(b), ino, mtime_ns }) => Some((b.clone(), *ino, *mtime_ns)),
        _ => None,
    }
}

/// Short histories on one source (the `inputs` dimension of C06, C08, C09)
fn mini_histories(rep: &Report, prop: &str, b: &Bench, help: &Tree, src: &[u8]) {
    // quick tier: the option-off variant only for sources of up to two lines (the option acts on the last line only)
    let nlines = src.iter().filter(|&&c| c == b'\n').count();
    let tns: &[bool] = if !rep.thorough() && nlines >= 3 { &[true] } else { &[true, false] };
    for &tn in tns {
        // the reference: a build from a tree without generated files
        reset_tree(b, help, src);
        let fresh = b.run_no_reset(Mode::Build, true, tn);
        rep.tv(1);
        if let V::Panic(p) = &fresh.v {
            rep.violate("panic", format!("source {:?}: panic {p}", show(src)), rj(prop, src, "build"));
            return;
        }
        let fresh_ok = fresh.v == V::Ok;
        let fresh_tree = snap_tree(&snapshot(&b.base));
        let pre = {
            let mut t = help.clone();
            tfile(&mut t, SRC, src);
            t
        };
        let generated: Vec<String> = fresh_tree.keys().filter(|k| !pre.contains_key(*k) && fresh_tree[*k] != Node::Dir).cloned().collect();
        let overwrote = fresh_tree.iter().any(|(k, v)| pre.get(k).map(|o| o != v).unwrap_or(false));
        if overwrote {
            return; // ill-formed (D1)
        }
        match prop {
            "C06" => {
                if !fresh_ok {
                    return;
                }
                // the output path is a symbolic link to a file elsewhere (txtpp writes and verifies through it)
                if tn {
                    reset_tree(b, help, src);
                    let real = b.base.join("sub/real.out");
                    std::fs::write(&real, b"old\n").unwrap();
                    std::os::unix::fs::symlink("sub/real.out", b.base.join(OUT)).unwrap();
                    let rb = b.run_no_reset(Mode::Build, true, tn);
                    let r = b.run_no_reset(Mode::Verify, true, tn);
                    rep.tv(2);
                    rep.tr(1);
                    rep.add("verify_through_a_linked_output", 1);
                    if rb.v == V::Ok && r.v != V::Ok {
                        rep.violate("verify-false-fail", format!("source {:?}: the output path is a symbolic link; verify fails right after a build: {}", show(src), r.v.kind()), rj(prop, src, "linked-output"));
                    }
                    if rb.v == V::Ok {
                        let mut x = std::fs::read(&real).unwrap_or_default();
                        x.push(b'Z');
                        std::fs::write(&real, &x).unwrap();
                        let r = b.run_no_reset(Mode::Verify, true, tn);
                        rep.tv(1);
                        if r.v == V::Ok {
                            rep.violate("verify-false-pass", format!("source {:?}: the output path is a symbolic link; verify passes with one byte appended to the file behind it", show(src)), rj(prop, src, "linked-output"));
                        }
                    }
                    reset_tree(b, help, src);
                    let _ = b.run_no_reset(Mode::Build, true, tn);
                }
                rep.add("verify_after_build_sources", 1);
                set_sentinel(&b.base);
                let before = snapshot(&b.base);
                let r = b.run_no_reset(Mode::Verify, true, tn);
                rep.tv(1);
                rep.tr(1);
                let after = snapshot(&b.base);
                if r.v != V::Ok {
                    rep.violate("verify-false-fail", format!("source {:?} tn={tn}: verify fails right after a build: {}", show(src), r.v.kind()), rj(prop, src, "build-verify"));
                }
                if meta_of(&before, OUT) != meta_of(&after, OUT) {
                    rep.violate("verify-modified-output", format!("source {:?}: verify touched the output", show(src)), rj(prop, src, "build-verify"));
                }
                let good = fresh.out.clone().unwrap_or_default();
                let mut variants: Vec<(&str, Option<Vec<u8>>)> = vec![("deleted", None)];
                let mut x = good.clone();
                x.push(b'Z');
                variants.push(("one byte appended", Some(x)));
                let mut x = good.clone();
                x.push(b'\n');
                variants.push(("newline appended", Some(x)));
                if !good.is_empty() {
                    variants.push(("last byte removed", Some(good[..good.len() - 1].to_vec())));
                    let mut x = good.clone();
                    x[0] ^= 1;
                    variants.push(("first byte flipped", Some(x)));
                    variants.push(("emptied", Some(vec![])));
                }
                for (what, bytes) in variants {
                    match &bytes {
                        Some(x) => std::fs::write(b.base.join(OUT), x).unwrap(),
                        None => {
                            let _ = std::fs::remove_file(b.base.join(OUT));
                        }
                    }
                    let r = b.run_no_reset(Mode::Verify, true, tn);
                    rep.tv(1);
                    rep.tr(1);
                    let now = std::fs::read(b.base.join(OUT)).ok();
                    if r.v == V::Ok {
                        rep.violate("verify-false-pass", format!("source {:?} tn={tn}: verify passes with the output {what} (fresh output {:?})", show(src), show(&good)), rj(prop, src, what));
                    }
                    if now != bytes {
                        rep.violate("verify-modified-output", format!("source {:?}: verify changed the output ({what})", show(src)), rj(prop, src, what));
                    }
                }
            }
            "C08" => {
                rep.add("prestate_sources", 1);
                for (what, bytes) in [("stale text", &b"STALE\n"[..]), ("not UTF-8", &b"\x68\xc3"[..]), ("empty", &b""[..]), ("CRLF text", &b"stale\r\nlines\r\n"[..])] {
                    reset_tree(b, help, src);
                    for g in &generated {
                        std::fs::write(b.base.join(g), bytes).unwrap();
                    }
                    let r = b.run_no_reset(Mode::Build, true, tn);
                    rep.tv(1);
                    rep.tr(1);
                    let t2 = snap_tree(&snapshot(&b.base));
                    if (r.v == V::Ok) != fresh_ok {
                        rep.violate("verdict-depends-on-prestate", format!("source {:?} tn={tn}: generated paths pre-filled with {what}: build {} but {} from a tree without them", show(src), r.v.kind(), if fresh_ok { "succeeds" } else { "fails" }), rj(prop, src, what));
                    } else if fresh_ok && t2 != fresh_tree {
                        let diff: Vec<&String> = t2.keys().chain(fresh_tree.keys()).filter(|k| t2.get(*k) != fresh_tree.get(*k)).collect();
                        rep.violate("build-depends-on-prestate", format!("source {:?} tn={tn}: generated paths pre-filled with {what}: {:?} differ from a build without leftovers", show(src), diff), rj(prop, src, what));
                    }
                }
            }
            _ => {
                if !fresh_ok {
                    // --needed succeeds exactly when a normal build does
                    reset_tree(b, help, src);
                    let r = b.run_no_reset(Mode::InMemoryBuild, true, tn);
                    rep.tv(1);
                    rep.tr(1);
                    rep.add("failing_sources_compared_with_needed", 1);
                    if r.v == V::Ok {
                        rep.violate("needed-verdict", format!("source {:?} tn={tn}: a normal build fails ({}) but --needed succeeds", show(src), fresh.v.kind()), rj(prop, src, "failing"));
                    }
                    return;
                }
                rep.add("unchanged_rebuild_sources", 1);
                // a target that this one source writes twice with different contents is rewritten by every run
                // (each write sees the other's content): "already correct" is not defined for it
                let multi: Vec<String> = std::str::from_utf8(src)
                    .map(crate::model::temp_targets_rewritten_in_run)
                    .unwrap_or_default()
                    .into_iter()
                    .map(|t| if t == LINK_TARGET.0 { LINK_TARGET.1.to_string() } else { t })
                    .collect();
                if !multi.is_empty() {
                    rep.add("sources_writing_one_temp_target_twice", 1);
                }
                for mode in [Mode::InMemoryBuild, Mode::Build, Mode::Verify] {
                    set_sentinel(&b.base);
                    let before = snapshot(&b.base);
                    let r = b.run_no_reset(mode.clone(), true, tn);
                    rep.tv(1);
                    rep.tr(1);
                    let after = snapshot(&b.base);
                    if r.v != V::Ok {
                        rep.violate("rerun-failed", format!("source {:?} tn={tn}: {:?} fails on an up-to-date tree", show(src), mode), rj(prop, src, "rerun"));
                        continue;
                    }
                    for g in &generated {
                        let is_out = g == OUT;
                        if is_out && mode == Mode::Build {
                            continue; // a normal build may rewrite outputs
                        }
                        if multi.contains(g) {
                            continue;
                        }
                        if meta_of(&before, g) != meta_of(&after, g) {
                            rep.violate(
                                if is_out { "needed-rewrote-unchanged-output" } else { "rewrote-unchanged-temp" },
                                format!("source {:?} tn={tn}: {:?} rewrote {g} ({} bytes) although its content was already correct", show(src), mode, meta_of(&before, g).map(|m| m.0.len()).unwrap_or(0)),
                                rj(prop, src, "rerun"),
                            );
                        }
                    }
                    if snap_tree(&after) != fresh_tree {
                        rep.violate("rerun-changed-content", format!("source {:?}: {:?} on an up-to-date tree changed file contents", show(src), mode), rj(prop, src, "rerun"));
                    }
                }
                // a stale output / temp target is brought up to date by -N
                for g in &generated {
                    std::fs::write(b.base.join(g), b"STALE\n").unwrap();
                }
                let r = b.run_no_reset(Mode::InMemoryBuild, true, tn);
                rep.tv(1);
                rep.tr(1);
                if r.v != V::Ok || snap_tree(&snapshot(&b.base)) != fresh_tree {
                    rep.violate("needed-left-stale", format!("source {:?} tn={tn}: --needed over stale generated files: {} and the tree {} a fresh build", show(src), r.v.kind(), if snap_tree(&snapshot(&b.base)) != fresh_tree { "differs from" } else { "equals" }), rj(prop, src, "stale"));
                }
            }
        }
    }
}

pub fn run_into(rep: &Report, prop: &str) {
    let max_len = if rep.thorough() { 4 } else { 3 };
    let deep = rep.thorough() && (prop == "C07" || prop == "C10");
    let help = helpers_clean();
    rep.set("source_enumeration_alphabet", json!(SIGMA_CLEAN));
    rep.set("source_enumeration_bound", json!(format!("all sources of <= {max_len} lines over the 22-line alphabet above (directive look-alikes as continuation lines of multi-line directives, temp directives naming pre-existing files, txtpp files, a symbolic link){}", if deep { "; all sources of 5 lines over its first 14 lines" } else { "" })));
    if prop == "C08" {
        two_pass_prestates(rep);
    }
    // the last two lines of the alphabet (an `after` of a missing file, a temp target outside the base directory) concern
    // C07/C10 only: the quick tier of the other properties enumerates over the first 20 lines
    let alpha_all = if !rep.thorough() && matches!(prop, "C06" | "C08" | "C09") { 20 } else { SIGMA_CLEAN.len() };
    let passes: Vec<(usize, usize, usize)> = if deep { vec![(alpha_all, max_len, 0), (14, 5, 5)] } else { vec![(alpha_all, max_len, 0)] };
    for (alpha, len, only_len) in passes {
        sharded_dyn(rep, par_threads(), |_k, _n, next, rep| {
            let b = Bench::new(&help);
            let stop = || rep.over_cap();
            for_each_seq(alpha, len, next, &stop, &mut |seq| {
                if only_len != 0 && seq.len() != only_len {
                    return;
                }
                let lines: Vec<&str> = seq.iter().map(|&i| SIGMA_CLEAN[i]).collect();
                let src = build_source(&lines, false, true);
                check_source(rep, prop, &b, &help, &src);
                // short sources also without the final newline (a one-line source then holds no line ending at all)
                if lines.len() <= 2 && !lines.is_empty() && lines.last() != Some(&"") {
                    let src = build_source(&lines, false, false);
                    check_source(rep, prop, &b, &help, &src);
                    rep.add("sources_without_final_newline", 1);
                }
                rep.st(1);
                rep.add("sources_enumerated", 1);
                if seq == [5, 7] {
                    rep.sample(json!({"source": show(&src), "note": "the second line is text written by `write`, not a temp directive"}));
                }
            });
            if rep.over_cap() {
                rep.note_cap("wall-clock cap in the source enumeration");
            }
        });
    }
}

/// C08 on a source that is processed in two passes (it has a .txtpp dependency) and generates a file which it
/// includes later: the verdict of either pass and the final bytes must not depend on what the generated paths held.
fn two_pass_prestates(rep: &Report) -> usize {
    let mut help = helpers_clean();
    tfile(&mut help, "dep.txt.txtpp", "D\n");
    tfile(&mut help, "dep.txt", "D\n");
    let b = Bench::new(&help);
    let sources: [(&str, &str); 3] = [
        ("x\nTXTPP#include dep.txt\n-TXTPP#temp t.out\n-body\n=TXTPP#include t.out\ny\n", "t.out"),
        ("TXTPP#after dep.txt\n-TXTPP#temp t.out\n-b1\n-b2\n=TXTPP#include ./t.out\n", "t.out"),
        ("x\nTXTPP#include dep.txt\n-TXTPP#run printf made > made.txt\n=TXTPP#include made.txt\ny\n", "made.txt"),
    ];
    let mut found = 0;
    for (src, gen) in sources {
        let src = src.as_bytes();
        let mut reference: Option<(String, String, Option<Vec<u8>>, Option<Vec<u8>>)> = None;
        for (what, pre) in [("absent", None), ("stale text", Some(&b"STALE\n"[..])), ("not UTF-8", Some(&b"\x68\xc3"[..])), ("empty", Some(&b""[..])), ("CRLF text", Some(&b"a\r\nb\r\n"[..]))] {
            for mode in [Mode::Build, Mode::InMemoryBuild] {
                reset_tree(&b, &help, src);
                if let Some(bytes) = pre {
                    std::fs::write(b.base.join(gen), bytes).unwrap();
                    std::fs::write(b.base.join(OUT), bytes).unwrap();
                }
                let r1 = b.run_no_reset(mode.clone(), true, true);
                let r2 = b.run_no_reset(mode.clone(), false, true);
                rep.tv(2);
                rep.tr(1);
                rep.add("two_pass_prestate_runs", 1);
                let got = (r1.v.kind().to_string(), r2.v.kind().to_string(), r2.out.clone(), std::fs::read(b.base.join(gen)).ok());
                match (&reference, mode == Mode::Build && what == "absent") {
                    (None, _) => reference = Some(got),
                    (Some(want), _) => {
                        if *want != got {
                            found += 1;
                            rep.violate(
                                "build-depends-on-prestate",
                                format!("two-pass source {:?}, generated paths {what}, {:?}: passes end {} / {} with output {:?}; from a tree without them: {} / {} with output {:?}", show(src), mode, got.0, got.1, got.2.as_ref().map(|x| show(x)), want.0, want.1, want.2.as_ref().map(|x| show(x))),
                                json!({"engine": "E-clean", "prop": "C08", "two_pass": true}),
                            );
                        }
                    }
                }
            }
        }
        if reference.map(|r| r.1 != "Ok").unwrap_or(true) {
            rep.machinery(format!("two-pass source {:?} does not build from a clean tree", show(src)));
        }
    }
    found
}

pub fn replay(v: &serde_json::Value) -> bool {
    if v["two_pass"].as_bool() == Some(true) {
        let rep = Report::new("C08", "quick");
        return two_pass_prestates(&rep) > 0;
    }
    let prop = v["prop"].as_str().unwrap_or("C07");
    let src = unb64(v["source_b64"].as_str().unwrap_or(""));
    let help = helpers_clean();
    let b = Bench::new(&help);
    let rep = Report::new(prop, "quick");
    check_source(&rep, prop, &b, &help, &src);
    for x in rep.violations.lock().unwrap().iter() {
        println!("  [{}] {}", x.signature, x.message);
    }
    rep.n_violations() > 0
}
