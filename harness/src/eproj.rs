//! Engine E-proj (C01, multi-file part): all small include projects across directories, name shapes and
//! body styles, built by the real `Txtpp::run` and compared with the reference model M.
#![allow(dead_code)]

use crate::ctl::*;
use crate::model::*;
use crate::util::*;
use serde_json::{json, Value};
use txtpp::{Config, Mode, Verbosity};

const DIRS: [&str; 3] = ["", "sub", "sub/deep"];
const STYLES: usize = 7;

fn src_name(i: usize) -> String {
    match i {
        0 => "f0.txt.txtpp".into(),
        1 => "f1.txtpp.txt".into(),
        _ => "f2.txtpp".into(),
    }
}
fn out_name(i: usize) -> String {
    match i {
        0 => "f0.txt".into(),
        1 => "f1.txt".into(),
        _ => "f2".into(),
    }
}
fn join(d: &str, n: &str) -> String {
    if d.is_empty() {
        n.to_string()
    } else {
        format!("{d}/{n}")
    }
}

/// relative path from directory `from` to file `to` (both base-relative)
fn rel(from: &str, to: &str) -> String {
    let f: Vec<&str> = from.split('/').filter(|s| !s.is_empty()).collect();
    let t: Vec<&str> = to.split('/').collect();
    let mut k = 0;
    while k < f.len() && k + 1 < t.len() && f[k] == t[k] {
        k += 1;
    }
    let mut parts: Vec<String> = vec!["..".to_string(); f.len() - k];
    parts.extend(t[k..].iter().map(|s| s.to_string()));
    parts.join("/")
}

#[derive(Clone, Debug)]
pub struct PSpec {
    pub n: usize,
    pub edges: u8, // bit for (0,1), (0,2), (1,2): i includes j
    pub dirs: Vec<usize>,
    pub styles: Vec<usize>,
    pub crlf_mid: bool,
}

impl PSpec {
    fn deps(&self, i: usize) -> Vec<usize> {
        let mut v = vec![];
        for (b, (a, c)) in [(0usize, 1usize), (0, 2), (1, 2)].iter().enumerate() {
            if *a == i && *c < self.n && self.edges >> b & 1 == 1 {
                v.push(*c);
            }
        }
        v
    }
    fn path(&self, i: usize) -> String {
        join(DIRS[self.dirs[i]], &src_name(i))
    }
    fn outp(&self, i: usize) -> String {
        join(DIRS[self.dirs[i]], &out_name(i))
    }
    fn body(&self, i: usize) -> String {
        let d = DIRS[self.dirs[i]];
        let deps: Vec<String> = self.deps(i).iter().map(|&j| rel(d, &self.outp(j))).collect();
        let x = format!("F{i}");
        let mut s = String::new();
        match self.styles[i] {
            0 => {
                s.push_str(&format!("{x}h\n"));
                for r in &deps {
                    s.push_str(&format!("TXTPP#include {r}\n"));
                }
                s.push_str(&format!("{x}t\n"));
            }
            1 => {
                s.push_str(&format!("{x}h\n"));
                for r in &deps {
                    s.push_str(&format!("  // TXTPP#include {r}\n"));
                }
                if deps.is_empty() {
                    s.push_str("  -TXTPP#write w\n  -v\n");
                }
            }
            2 => {
                for r in &deps {
                    s.push_str(&format!("TXTPP#after {r}\n-TXTPP#run cat {r}\n"));
                }
                s.push_str(&format!("{x}t\n"));
            }
            3 => {
                for r in &deps {
                    s.push_str(&format!("-TXTPP#tag T\n-TXTPP#include {r}\n[T]\n-TXTPP#include {r}\n"));
                }
                s.push_str(&format!("{x}t"));
            }
            4 => {
                s.push_str(&format!("-TXTPP#temp {x}.tmp\n-line1 {x}\n-\nTXTPP#include {x}.tmp\n"));
                for r in &deps {
                    s.push_str(&format!("\tTXTPP#include {r}\n"));
                }
                s.push_str(&format!("{x}t"));
            }
            6 => {
                // after the dependencies: multi-line directives whose continuation lines look like directives
                // (an include of this file's own output, a prefix-less run) - they are text, not directives
                s.push_str(&format!("{x}h\n"));
                for r in &deps {
                    s.push_str(&format!("TXTPP#include {r}\n"));
                }
                s.push_str(&format!("-TXTPP#write esc\n-TXTPP#include {}\n/* TXTPP#write esc2\n   TXTPP#run true\n{x}t\n", out_name(i)));
            }
            _ => {
                s.push_str(&format!("# TXTPP#write {x}a\n# {x}b\n#\n"));
                for r in &deps {
                    s.push_str(&format!("TXTPP#include {r}\n-TXTPP#\n- ignored\n"));
                }
                s.push_str(&format!(" {x}t \n"));
            }
        }
        if i == 1 && self.crlf_mid {
            s = s.replace('\n', "\r\n");
        }
        s
    }
    pub fn tree(&self) -> Tree {
        let mut t = Tree::new();
        for d in DIRS {
            if !d.is_empty() {
                t.insert(d.to_string(), Node::Dir);
            }
        }
        for i in 0..self.n {
            tfile(&mut t, &self.path(i), self.body(i));
        }
        t
    }
    pub fn to_json(&self) -> Value {
        json!({"n": self.n, "edges": self.edges, "dirs": self.dirs, "styles": self.styles, "crlf_mid": self.crlf_mid})
    }
    pub fn from_json(v: &Value) -> PSpec {
        let arr = |k: &str| v[k].as_array().unwrap().iter().map(|x| x.as_u64().unwrap() as usize).collect::<Vec<_>>();
        PSpec { n: v["n"].as_u64().unwrap() as usize, edges: v["edges"].as_u64().unwrap() as u8, dirs: arr("dirs"), styles: arr("styles"), crlf_mid: v["crlf_mid"].as_bool().unwrap_or(false) }
    }
}

pub fn specs(n_max: usize) -> Vec<PSpec> {
    let mut v = vec![];
    for n in 1..=n_max {
        let nedges = [0, 0, 1, 3][n];
        for edges in 0..(1u8 << nedges) {
            // map the low bits onto the edge slots that exist for n files: n=2 -> (0,1); n=3 -> all three
            let e = edges;
            for dm in 0..3usize.pow(n as u32) {
                let dirs: Vec<usize> = (0..n).map(|i| dm / 3usize.pow(i as u32) % 3).collect();
                for sm in 0..STYLES.pow(n as u32) {
                    let styles: Vec<usize> = (0..n).map(|i| sm / STYLES.pow(i as u32) % STYLES).collect();
                    for crlf_mid in [false, true] {
                        if crlf_mid && n < 2 {
                            continue;
                        }
                        v.push(PSpec { n, edges: e, dirs: dirs.clone(), styles: styles.clone(), crlf_mid });
                    }
                }
            }
        }
    }
    v
}

fn check_spec(rep: &Report, scratch: &Scratch, sp: &PSpec) {
    let tree = sp.tree();
    let mt = MTree::from_tree(&tree);
    let base = scratch.p("p");
    for (inputs, recursive, roots) in [(vec![".".to_string()], true, (0..sp.n).collect::<Vec<_>>()), (vec![sp.outp(0)], false, vec![0usize])] {
        for tn in [true, false] {
        // model
        let mut m = Model::new(&mt, tn, &std_cmd);
        let mut want: Vec<(usize, Result<MFile, String>)> = vec![];
        let mut processed = std::collections::BTreeSet::new();
        let mut stack = roots.clone();
        while let Some(i) = stack.pop() {
            if processed.insert(i) {
                stack.extend(sp.deps(i));
            }
        }
        for &i in &processed {
            want.push((i, m.eval(&sp.path(i))));
        }
        if want.iter().any(|(_, r)| matches!(r, Err(e) if e.starts_with("out-of-domain"))) {
            rep.add("projects_outside_domain", 1);
            continue;
        }
        let model_ok = want.iter().all(|(_, r)| r.is_ok());
        for mode in [Mode::Build, Mode::InMemoryBuild] {
            let _ = std::fs::remove_dir_all(&base);
            std::fs::create_dir_all(&base).unwrap();
            write_tree(&base, &tree);
            let r = run_canonical(Config {
                base_dir: base.clone(),
                shell_cmd: String::new(),
                inputs: inputs.clone(),
                recursive,
                num_threads: 1,
                mode: mode.clone(),
                verbosity: Verbosity::Quiet,
                trailing_newline: tn,
            });
            rep.tv(1);
            rep.tr(1);
            rep.add("project_runs", 1);
            let desc = format!("project {:?} inputs={:?} mode={:?} trailing_newline={tn}", sp.to_json().to_string(), inputs, mode);
            let rj = json!({"engine": "E-proj", "spec": sp.to_json(), "inputs": inputs, "recursive": recursive, "mode": format!("{:?}", mode), "tn": tn});
            if !r.clean() {
                rep.violate("abnormal-end", format!("{desc}: {} {:?}", r.verdict.kind(), r.worker_panics), rj);
                continue;
            }
            if r.verdict.is_ok() != model_ok {
                rep.violate(
                    if model_ok { "spurious-error" } else { "missed-error" },
                    format!("{desc}: implementation {} {}, semantics prescribe {}", r.verdict.kind(), crate::sched::first_lines(&r.verdict.detail(), 4), if model_ok { "success" } else { "an error" }),
                    rj,
                );
                continue;
            }
            if !model_ok {
                continue;
            }
            let after = snapshot(&base);
            let mut expected_new: std::collections::BTreeSet<String> = Default::default();
            for (i, w) in &want {
                let mf = w.as_ref().unwrap();
                let o = sp.outp(*i);
                expected_new.insert(o.clone());
                let got = match after.get(&o) {
                    Some(Meta { node: Node::File(b), .. }) => Some(b.clone()),
                    _ => None,
                };
                if got.as_ref().map(|g| mf.outs.iter().any(|x| x == g)) != Some(true) {
                    rep.violate(
                        "output-differs",
                        format!("{desc}: {o} is {:?}, semantics prescribe {:?} (source {:?})", got.as_ref().map(|b| show(b)), mf.outs.iter().map(|x| show(x)).collect::<Vec<_>>(), sp.body(*i)),
                        rj.clone(),
                    );
                }
                for (tp, tb) in &mf.temps {
                    expected_new.insert(tp.clone());
                    if after.get(tp).map(|m| &m.node) != Some(&Node::File(tb.clone())) {
                        rep.violate("temp-differs", format!("{desc}: temp target {tp} differs from {:?}", show(tb)), rj.clone());
                    }
                }
            }
            for k in after.keys() {
                if !tree.contains_key(k) && after[k].node != Node::Dir && !expected_new.contains(k) {
                    rep.violate("stray-file", format!("{desc}: unexpected file {k}"), rj.clone());
                }
            }
        }
        }
    }
}

pub fn run_into(rep: &Report) {
    let n_max = if rep.thorough() { 3 } else { 2 };
    let sp = specs(n_max);
    rep.set("multi_file_projects", json!(sp.len()));
    rep.set("multi_file_bounds", json!(format!("all include DAGs on <= {n_max} files x each file in ., sub/, sub/deep/ x 7 body styles x three source-name shapes x CRLF in the middle file; inputs = directory (recursive) and the root by output name; Build and InMemoryBuild")));
    sharded_dyn(rep, par_threads(), |_k, _n, next, rep| {
        let scratch = Scratch::new();
        loop {
            let i = next();
            if i >= sp.len() {
                break;
            }
            if rep.over_cap() {
                rep.note_cap("wall-clock cap in the multi-file projects");
                break;
            }
            check_spec(rep, &scratch, &sp[i]);
            rep.st(1);
            if i == 777 || (sp.len() < 777 && i == 100) {
                rep.sample(json!({"multi_file_project": sp[i].tree().iter().filter_map(|(k, v)| match v { Node::File(b) => Some((k.clone(), show(b))), _ => None }).collect::<std::collections::BTreeMap<_, _>>()}));
            }
        }
    });
}

fn c13_pair_for_spec(rep: &Report, base: &std::path::Path, s: &PSpec) {
            let tree = s.tree();
            let mut outs = vec![];
            for tn in [true, false] {
                let _ = std::fs::remove_dir_all(base);
                std::fs::create_dir_all(base).unwrap();
                write_tree(base, &tree);
                let r = run_canonical(Config {
                    base_dir: base.to_path_buf(),
                    shell_cmd: String::new(),
                    inputs: vec![s.outp(0)],
                    recursive: false,
                    num_threads: 1,
                    mode: Mode::Build,
                    verbosity: Verbosity::Quiet,
                    trailing_newline: tn,
                });
                rep.tv(1);
                rep.tr(1);
                outs.push((r.verdict.is_ok(), std::fs::read(base.join(s.outp(1))).ok()));
            }
            rep.add("dependency_pairs", 1);
            if let ((true, Some(on)), (true, Some(off))) = (&outs[0], &outs[1]) {
                let body = s.body(1);
                let le = first_le(body.as_bytes());
                let mut plus = off.clone();
                plus.extend_from_slice(le.as_bytes());
                let ends_in_text = classify(split_lines(&body).last().copied().unwrap_or("")).is_none() && !body.is_empty();
                if on != off && *on != plus {
                    rep.violate("dependency-differs-by-more-than-one-line-ending", format!("project {}: dependency {} built through its includer: with the option {:?}, without {:?}", s.to_json(), s.outp(1), show(on), show(off)), json!({"engine": "E-proj", "c13": true, "spec": s.to_json()}));
                } else if ends_in_text && (*on != plus || off.ends_with(b"\n")) {
                    rep.violate("option-does-not-reach-dependency", format!("project {}: dependency {} ends with a text line; with the option {:?}, without {:?}", s.to_json(), s.outp(1), show(on), show(off)), json!({"engine": "E-proj", "c13": true, "spec": s.to_json()}));
                }
            }
}

/// C13 on files that are built as DEPENDENCIES of the named file: the option must reach them too.
/// Only leaf files are compared (a file that includes another one legitimately differs in the middle).
pub fn c13_dependency_pairs(rep: &Report) {
    let sp: Vec<PSpec> = specs(2).into_iter().filter(|s| s.n == 2 && s.edges == 1 && !s.crlf_mid).collect();
    rep.set("dependency_pairs_projects", json!(sp.len()));
    sharded_dyn(rep, par_threads(), |_k, _n, next, rep| {
        let scratch = Scratch::new();
        let base = scratch.p("p");
        loop {
            let i = next();
            if i >= sp.len() {
                break;
            }
            c13_pair_for_spec(rep, &base, &sp[i]);
        }
    });
}

pub fn replay(v: &Value) -> bool {
    if v["c13"].as_bool() == Some(true) {
        let rep = Report::new("C13", "quick");
        let scratch = Scratch::new();
        c13_pair_for_spec(&rep, &scratch.p("p"), &PSpec::from_json(&v["spec"]));
        for x in rep.violations.lock().unwrap().iter() {
            println!("  [{}] {}", x.signature, x.message);
        }
        return rep.n_violations() > 0;
    }
    let rep = Report::new("C01", "quick");
    let sp = PSpec::from_json(&v["spec"]);
    let scratch = Scratch::new();
    for (k, n) in sp.tree() {
        if let Node::File(b) = n {
            println!("  {k}: {:?}", show(&b));
        }
    }
    check_spec(&rep, &scratch, &sp);
    for x in rep.violations.lock().unwrap().iter() {
        println!("  [{}] {}", x.signature, x.message);
    }
    rep.n_violations() > 0
}
