//! Engine E-proj: multi-file include projects across directories (C01).
use crate::util::*;

pub fn run_into(_rep: &Report) {}
