//! Engine S, part 1: the schedule controller installed behind txtpp's `verif` hooks.
//!
//! Real OS threads run the real closures; the controller only decides *when* each gated
//! task body may run. One task body runs at a time.
#![allow(dead_code)]

use std::any::Any;
use std::panic::{catch_unwind, AssertUnwindSafe};
use std::sync::{Arc, Condvar, Mutex};
use std::time::{Duration, Instant};
use txtpp::verif::Controller;
use txtpp::{Config, Txtpp};

#[derive(Clone, Copy, PartialEq, Eq, Debug)]
enum TaskState {
    Queued,
    AtGate,
    Running,
    Done,
}

#[derive(Clone, Copy, PartialEq, Eq, Debug)]
enum Coord {
    Running,
    AtPoll,
    Idle,
    Draining,
}

struct Task {
    label: String,
    state: TaskState,
}

#[derive(Clone, Debug, PartialEq, Eq)]
pub struct Decision {
    pub enabled: Vec<String>,
    pub chosen: usize,
}

#[derive(Clone, Copy, PartialEq, Eq, Debug)]
pub enum Explore {
    /// coordinator handles every message as soon as it is sent
    Reduced,
    /// coordinator steps (handle one message / poll an empty channel) are choices too
    Unreduced { early_idle_bound: usize },
}

struct State {
    tasks: Vec<Task>,
    coord: Coord,
    granted: Option<usize>,
    pool_threads: usize,
    explore: Explore,
    prefix: Vec<usize>,
    decisions: Vec<Decision>,
    trace: Vec<String>,
    pending_msgs: usize,
    early_idles: usize,
    hang: bool,
    diverged: bool,
    replay_misfit: Option<String>,
    coord_go: bool,
    max_tasks: usize,
    worker_panics: Vec<String>,
    skip_poll: bool,
    hang_in_drop: bool,
}

pub struct Ctl {
    st: Mutex<State>,
    cv: Condvar,
}

struct HangSentinel;
struct DivergeSentinel;

impl Ctl {
    fn new(prefix: Vec<usize>, pool_threads: usize, explore: Explore, max_tasks: usize) -> Self {
        Ctl {
            st: Mutex::new(State {
                tasks: vec![],
                coord: Coord::Running,
                granted: None,
                pool_threads,
                explore,
                prefix,
                decisions: vec![],
                trace: vec![],
                pending_msgs: 0,
                early_idles: 0,
                hang: false,
                diverged: false,
                replay_misfit: None,
                coord_go: false,
                max_tasks,
                worker_panics: vec![],
                skip_poll: false,
                hang_in_drop: false,
            }),
            cv: Condvar::new(),
        }
    }

    /// Called with the lock held whenever something changed. Makes at most one decision.
    fn schedule(&self, s: &mut State) {
        if s.coord == Coord::Running || s.granted.is_some() || s.coord_go {
            return;
        }
        let unfinished = s.tasks.iter().filter(|t| t.state != TaskState::Done).count();
        let at_gate: Vec<usize> =
            (0..s.tasks.len()).filter(|&i| s.tasks[i].state == TaskState::AtGate).collect();
        if at_gate.len() != unfinished.min(s.pool_threads) {
            return; // a pool thread is still on its way to the gate
        }
        // quiescent: build the choice menu
        let mut menu: Vec<(String, Option<usize>)> =
            at_gate.iter().map(|&i| (s.tasks[i].label.clone(), Some(i))).collect();
        menu.sort();
        if s.diverged {
            // only drain: run remaining tasks in canonical order, no decisions recorded
            if let Some((_, Some(i))) = menu.first().cloned() {
                self.grant(s, i);
            } else if s.coord != Coord::Draining {
                s.coord_go = true;
                self.cv.notify_all();
            }
            return;
        }
        match s.explore {
            Explore::Reduced => {
                if s.coord == Coord::Idle && s.pending_msgs > 0 {
                    // eager coordinator: handle the message first
                    s.coord_go = true;
                    s.coord = Coord::Running;
                    self.cv.notify_all();
                    return;
                }
            }
            Explore::Unreduced { early_idle_bound } => {
                if s.coord == Coord::AtPoll {
                    if s.pending_msgs > 0 {
                        menu.push(("~M".to_string(), None));
                    } else if menu.is_empty() || s.early_idles < early_idle_bound {
                        menu.push(("~I".to_string(), None));
                    }
                } else if s.coord == Coord::Idle && s.pending_msgs > 0 {
                    menu.push(("~M".to_string(), None));
                }
            }
        }
        if menu.is_empty() {
            if s.coord == Coord::Idle {
                // the real coordinator would sleep and poll forever
                s.hang = true;
                s.trace.push("HANG".to_string());
                s.coord_go = true;
                self.cv.notify_all();
            }
            return;
        }
        let choice = if menu.len() == 1 {
            0
        } else {
            let k = s.decisions.len();
            let c = if k < s.prefix.len() { s.prefix[k] } else { 0 };
            if c >= menu.len() {
                s.replay_misfit =
                    Some(format!("decision {k}: prefix wants {c} but only {} enabled", menu.len()));
                s.decisions.push(Decision { enabled: menu.iter().map(|m| m.0.clone()).collect(), chosen: 0 });
                0
            } else {
                s.decisions.push(Decision { enabled: menu.iter().map(|m| m.0.clone()).collect(), chosen: c });
                c
            }
        };
        match menu[choice].1 {
            Some(i) => self.grant(s, i),
            None => {
                if menu[choice].0 == "~I" && at_gate.len() + s.pending_msgs > 0 {
                    s.early_idles += 1;
                }
                s.trace.push(menu[choice].0.clone());
                if menu[choice].0 == "~M" {
                    s.pending_msgs -= 1;
                    if s.coord == Coord::Idle {
                        // woken from its sleep, the coordinator polls at once
                        s.skip_poll = true;
                    }
                }
                s.coord_go = true;
                s.coord = Coord::Running;
                self.cv.notify_all();
            }
        }
    }

    fn grant(&self, s: &mut State, i: usize) {
        s.tasks[i].state = TaskState::Running;
        s.granted = Some(i);
        let l = s.tasks[i].label.clone();
        s.trace.push(format!("B {l}"));
        self.cv.notify_all();
    }
}

impl Controller for Ctl {
    fn task_spawned(&self, kind: &'static str, file: &str, pass: u8) -> u64 {
        let mut s = self.st.lock().unwrap();
        let label = if kind == "scan" { format!("scan:{file}") } else { format!("pp:{file}:{pass}") };
        s.trace.push(format!("S {label}"));
        s.tasks.push(Task { label, state: TaskState::Queued });
        if s.tasks.len() > s.max_tasks && !s.diverged {
            s.diverged = true;
            s.trace.push("DIVERGES".to_string());
        }
        (s.tasks.len() - 1) as u64
    }

    fn task_begin(&self, id: u64) {
        let i = id as usize;
        let mut s = self.st.lock().unwrap();
        s.tasks[i].state = TaskState::AtGate;
        self.schedule(&mut s);
        while s.tasks[i].state != TaskState::Running {
            s = self.cv.wait(s).unwrap();
        }
    }

    fn task_end(&self, id: u64, panicked: bool) {
        let i = id as usize;
        let mut s = self.st.lock().unwrap();
        s.tasks[i].state = TaskState::Done;
        s.granted = None;
        let l = s.tasks[i].label.clone();
        if panicked {
            s.trace.push(format!("E! {l}"));
            s.worker_panics.push(l);
        } else {
            s.trace.push(format!("E {l}"));
            s.pending_msgs += 1;
        }
        self.schedule(&mut s);
    }

    fn coordinator_poll(&self) {
        let mut s = self.st.lock().unwrap();
        if s.diverged {
            drop(s);
            std::panic::resume_unwind(Box::new(DivergeSentinel));
        }
        match s.explore {
            Explore::Reduced => {
                // the coordinator is about to take whatever is in the channel
                if s.pending_msgs > 0 {
                    s.pending_msgs -= 1;
                }
            }
            Explore::Unreduced { .. } => {
                if s.skip_poll {
                    s.skip_poll = false;
                    return;
                }
                s.coord = Coord::AtPoll;
                s.coord_go = false;
                self.schedule(&mut s);
                while !s.coord_go {
                    s = self.cv.wait(s).unwrap();
                }
                s.coord_go = false;
                s.coord = Coord::Running;
            }
        }
    }

    fn coordinator_idle(&self) -> bool {
        let mut s = self.st.lock().unwrap();
        if s.diverged {
            drop(s);
            std::panic::resume_unwind(Box::new(DivergeSentinel));
        }
        s.coord = Coord::Idle;
        s.coord_go = false;
        self.schedule(&mut s);
        while !s.coord_go {
            s = self.cv.wait(s).unwrap();
        }
        s.coord_go = false;
        s.coord = Coord::Running;
        if s.hang {
            drop(s);
            std::panic::resume_unwind(Box::new(HangSentinel));
        }
        if s.diverged {
            drop(s);
            std::panic::resume_unwind(Box::new(DivergeSentinel));
        }
        true
    }

    fn drain_begin(&self) {
        let mut s = self.st.lock().unwrap();
        s.coord = Coord::Draining;
        s.coord_go = false;
        s.trace.push("DRAIN".to_string());
        self.schedule(&mut s);
    }

    fn drain_idle(&self) -> bool {
        let mut s = self.st.lock().unwrap();
        if s.hang || s.diverged || std::thread::panicking() {
            return true;
        }
        // channel empty, not done, no error: if no task is left either, nothing can ever change that:
        // the real drop loop would sleep and poll for ever
        if s.tasks.iter().all(|t| t.state == TaskState::Done) {
            s.trace.push("HANG-IN-DROP".to_string());
            s.hang_in_drop = true;
            return true;
        }
        false
    }
}

/// runs that never returned in this process (their threads are abandoned; the worker stops taking new work)
pub static STUCK_RUNS: std::sync::atomic::AtomicUsize = std::sync::atomic::AtomicUsize::new(0);

#[derive(Clone, Debug, PartialEq, Eq)]
pub enum Verdict {
    /// the run did not return within the limit: the coordinator or a task body loops or blocks for ever
    Stuck(String),
    Ok,
    Err(String),
    /// the coordinator panicked
    Panic(String),
    /// the coordinator would poll forever
    Hang,
    /// unbounded task creation
    Diverges,
}

impl Verdict {
    pub fn is_ok(&self) -> bool {
        matches!(self, Verdict::Ok)
    }
    pub fn is_err(&self) -> bool {
        matches!(self, Verdict::Err(_))
    }
    pub fn kind(&self) -> &'static str {
        match self {
            Verdict::Stuck(_) => "Stuck",
            Verdict::Ok => "Ok",
            Verdict::Err(_) => "Err",
            Verdict::Panic(_) => "Panic",
            Verdict::Hang => "Hang",
            Verdict::Diverges => "Diverges",
        }
    }
    pub fn detail(&self) -> String {
        match self {
            Verdict::Err(s) | Verdict::Panic(s) | Verdict::Stuck(s) => s.clone(),
            _ => String::new(),
        }
    }
}

#[derive(Clone, Debug)]
pub struct RunResult {
    pub verdict: Verdict,
    pub decisions: Vec<Decision>,
    pub trace: Vec<String>,
    pub worker_panics: Vec<String>,
    pub replay_misfit: Option<String>,
    pub tasks: usize,
    /// the coordinator's drop loop would poll for ever
    pub hang_in_drop: bool,
}

impl RunResult {
    pub fn choices(&self) -> Vec<usize> {
        self.decisions.iter().map(|d| d.chosen).collect()
    }
    /// no panic on any thread, no hang, no divergence
    pub fn clean(&self) -> bool {
        self.worker_panics.is_empty() && !self.hang_in_drop && matches!(self.verdict, Verdict::Ok | Verdict::Err(_))
    }
}

#[derive(Clone, Debug)]
pub struct CtlOpts {
    pub prefix: Vec<usize>,
    pub explore: Explore,
    /// 0 = use config.num_threads as given (also for the controller's notion of the pool size)
    pub max_tasks: usize,
}

impl Default for CtlOpts {
    fn default() -> Self {
        CtlOpts { prefix: vec![], explore: Explore::Reduced, max_tasks: 64 }
    }
}

fn panic_msg(p: &Box<dyn Any + Send>) -> String {
    if let Some(s) = p.downcast_ref::<&str>() {
        s.to_string()
    } else if let Some(s) = p.downcast_ref::<String>() {
        s.clone()
    } else {
        "non-string panic".to_string()
    }
}

// ---- watchdog: a run that never returns is a machinery failure (exit 2), never a verdict

static WATCH: Mutex<Vec<(u64, Instant, String)>> = Mutex::new(Vec::new());
static WATCH_N: std::sync::atomic::AtomicU64 = std::sync::atomic::AtomicU64::new(0);

pub fn start_watchdog(limit: Duration) {
    std::thread::spawn(move || loop {
        std::thread::sleep(Duration::from_millis(500));
        let w = WATCH.lock().unwrap();
        for (_, t, what) in w.iter() {
            if t.elapsed() > limit {
                eprintln!("MACHINERY-ERROR: watchdog: a controlled run did not return within {limit:?}: {what}");
                crate::util::cleanup_scratch_root();
                std::process::exit(2);
            }
        }
    });
}

struct WatchGuard(u64);
impl WatchGuard {
    fn new(what: String) -> Self {
        let n = WATCH_N.fetch_add(1, std::sync::atomic::Ordering::Relaxed);
        WATCH.lock().unwrap().push((n, Instant::now(), what));
        WatchGuard(n)
    }
}
impl Drop for WatchGuard {
    fn drop(&mut self) {
        WATCH.lock().unwrap().retain(|x| x.0 != self.0);
    }
}

/// Run `Txtpp::run(cfg)` under the controller with the given choice prefix. The coordinator runs on its own
/// thread so that a run which never returns (endless loop in the coordinator, a task body that blocks for ever)
/// becomes the verdict `Stuck` after `VERIF_STUCK_S` (default 12) seconds instead of stalling the harness.
pub fn run_controlled(cfg: Config, opts: &CtlOpts) -> RunResult {
    let pool = cfg.num_threads;
    let ctl = Arc::new(Ctl::new(opts.prefix.clone(), pool.max(1), opts.explore, opts.max_tasks));
    let _w = WatchGuard::new(format!("base={:?} inputs={:?} mode={:?}", cfg.base_dir, cfg.inputs, cfg.mode));
    let limit = std::env::var("VERIF_STUCK_S").ok().and_then(|s| s.parse().ok()).unwrap_or(12.0f64);
    let (tx, rx) = std::sync::mpsc::channel();
    let ctl2 = ctl.clone();
    let handle = std::thread::Builder::new()
        .name("coordinator".into())
        .spawn(move || {
            let prev = txtpp::verif::install(Some(ctl2 as Arc<dyn Controller>));
            let r = catch_unwind(AssertUnwindSafe(|| Txtpp::run(cfg)));
            txtpp::verif::install(prev);
            let _ = tx.send(r);
        })
        .expect("spawn coordinator thread");
    let r = match rx.recv_timeout(Duration::from_secs_f64(limit)) {
        Ok(r) => {
            let _ = handle.join();
            r
        }
        Err(_) => {
            STUCK_RUNS.fetch_add(1, std::sync::atomic::Ordering::Relaxed);
            let s = ctl.st.lock().unwrap();
            let what = match s.granted {
                Some(i) => format!("task {} started and never ended", s.tasks[i].label),
                None => format!("the coordinator ({:?}) never came back; no task was running", s.coord),
            };
            return RunResult {
                verdict: Verdict::Stuck(what),
                decisions: s.decisions.clone(),
                trace: s.trace.clone(),
                worker_panics: s.worker_panics.clone(),
                replay_misfit: None,
                tasks: s.tasks.len(),
                hang_in_drop: s.hang_in_drop,
            };
        }
    };
    let s = ctl.st.lock().unwrap();
    let verdict = match r {
        Ok(Ok(())) => Verdict::Ok,
        Ok(Err(e)) => Verdict::Err(format!("{e:?}")),
        Err(p) => {
            if p.is::<HangSentinel>() {
                Verdict::Hang
            } else if p.is::<DivergeSentinel>() {
                Verdict::Diverges
            } else {
                Verdict::Panic(panic_msg(&p))
            }
        }
    };
    RunResult {
        verdict,
        decisions: s.decisions.clone(),
        trace: s.trace.clone(),
        worker_panics: s.worker_panics.clone(),
        replay_misfit: s.replay_misfit.clone(),
        tasks: s.tasks.len(),
        hang_in_drop: s.hang_in_drop,
    }
}

/// Canonical schedule (always the first enabled task), no exploration: the fast way to run txtpp in-process.
pub fn run_canonical(cfg: Config) -> RunResult {
    run_controlled(cfg, &CtlOpts::default())
}

/// Depth-first enumeration of all schedules; `f` is called for every complete run. Returns number of runs,
/// or Err on a replay misfit (machinery failure).
pub fn explore_all<F: FnMut(&RunResult) -> bool>(
    mut run: impl FnMut(&[usize]) -> RunResult,
    mut f: F,
    max_runs: usize,
) -> Result<(usize, bool), String> {
    let mut stack: Vec<Vec<usize>> = vec![vec![]];
    let mut runs = 0usize;
    while let Some(prefix) = stack.pop() {
        if runs >= max_runs {
            return Ok((runs, false));
        }
        let r = run(&prefix);
        runs += 1;
        if let Some(m) = &r.replay_misfit {
            return Err(format!("replay divergence under prefix {prefix:?}: {m}"));
        }
        let ch = r.choices();
        if ch.len() < prefix.len() || ch[..prefix.len()] != prefix[..] {
            // fewer decisions than the prefix: the prefix was not consumed
            if !(r.verdict == Verdict::Diverges) {
                return Err(format!("replay divergence: prefix {prefix:?} but run made {ch:?}"));
            }
        }
        for i in (prefix.len()..r.decisions.len()).rev() {
            for alt in (1..r.decisions[i].enabled.len()).rev() {
                let mut p = ch[..i].to_vec();
                p.push(alt);
                stack.push(p);
            }
        }
        if !f(&r) {
            return Ok((runs, false));
        }
    }
    Ok((runs, true))
}
