//! C10, syscall-level observation: the production binary runs under `strace -f`; every file-system call of the
//! txtpp process itself (not of the commands it starts) that creates, opens for writing, renames or removes a
//! path must name an output or a temp target of the processed sources. This also sees files that exist only
//! during the run (staging files, locks), which a before/after snapshot cannot.
#![allow(dead_code)]

use crate::hist::*;
use crate::util::*;
use serde_json::json;
use std::collections::BTreeSet;
use txtpp::Mode;

fn strace_ok() -> bool {
    std::process::Command::new("strace").args(["-f", "-qq", "-o", "/dev/null", "-e", "trace=openat", "true"]).status().map(|s| s.success()).unwrap_or(false)
}

/// (syscall, path) pairs that mutate the file system, by the txtpp process and its threads only
fn mutations(trace: &str) -> Vec<(String, String)> {
    let mut execs: std::collections::BTreeMap<String, usize> = Default::default();
    let mut first_pid: Option<String> = None;
    for l in trace.lines() {
        let pid = l.split_whitespace().next().unwrap_or("").to_string();
        if first_pid.is_none() {
            first_pid = Some(pid.clone());
        }
        if l.contains(" execve(") {
            *execs.entry(pid).or_insert(0) += 1;
        }
    }
    let first = first_pid.unwrap_or_default();
    let mut out = vec![];
    for l in trace.lines() {
        let mut it = l.splitn(2, char::is_whitespace);
        let pid = it.next().unwrap_or("");
        let rest = it.next().unwrap_or("").trim_start();
        // children that exec'd another program are commands, not txtpp
        let n_exec = execs.get(pid).cloned().unwrap_or(0);
        if (pid == first && n_exec > 1) || (pid != first && n_exec > 0) {
            continue;
        }
        if rest.contains("= -1 E") {
            continue; // failed: no effect
        }
        let name = rest.split('(').next().unwrap_or("");
        let strings: Vec<String> = {
            let mut v = vec![];
            let b = rest.as_bytes();
            let mut i = 0;
            while i < b.len() {
                if b[i] == b'"' {
                    let mut j = i + 1;
                    let mut s = String::new();
                    while j < b.len() && b[j] != b'"' {
                        if b[j] == b'\\' && j + 1 < b.len() {
                            s.push(b[j + 1] as char);
                            j += 2;
                        } else {
                            s.push(b[j] as char);
                            j += 1;
                        }
                    }
                    v.push(s);
                    i = j + 1;
                } else {
                    i += 1;
                }
            }
            v
        };
        match name {
            "openat" | "open" | "creat" => {
                let writes = name == "creat" || ["O_WRONLY", "O_RDWR", "O_CREAT", "O_TRUNC", "O_APPEND"].iter().any(|f| rest.contains(f));
                if writes {
                    if let Some(p) = strings.first() {
                        out.push((name.to_string(), p.clone()));
                    }
                }
            }
            "rename" | "renameat" | "renameat2" | "link" | "linkat" | "symlink" | "symlinkat" => {
                for p in strings {
                    out.push((name.to_string(), p));
                }
            }
            "unlink" | "unlinkat" | "mkdir" | "mkdirat" | "rmdir" | "truncate" | "chmod" | "fchmodat" | "utimensat" | "utimes" | "chown" => {
                if let Some(p) = strings.first() {
                    out.push((name.to_string(), p.clone()));
                }
            }
            _ => {}
        }
    }
    out
}

fn run_job(rep: &Report, b: &Bench, fc: &mut FreshCache, pname: &str, start: &str, mi: usize, si: usize) {
            let p = project(pname);
            let mode = &MODES[mi];
            let sel = &p.sels[si];
            let ver = vec![0; p.sources.len()];
            let mut t = p.pristine(&ver);
            if start != "pristine" {
                let fr = fc.get(b, &p, &ver, true, 0);
                for (g, bytes) in &fr.files {
                    tfile(&mut t, g, if start == "stale" { b"STALE\n".to_vec() } else { bytes.clone() });
                }
            }
            b.materialize(&t);
            let tracefile = b.scratch.p("trace.txt");
            let mut c = std::process::Command::new("strace");
            c.args(["-f", "-qq", "-s", "4096", "-o"]).arg(&tracefile).args(["-e", "trace=openat,open,creat,rename,renameat,renameat2,unlink,unlinkat,mkdir,mkdirat,rmdir,link,linkat,symlink,symlinkat,truncate,chmod,fchmodat,utimensat,execve"]);
            c.arg(production_cli());
            match mode {
                Mode::Build => {}
                Mode::InMemoryBuild => {
                    c.arg("-N");
                }
                Mode::Verify => {
                    c.arg("verify");
                }
                Mode::Clean => {
                    c.arg("clean");
                }
            }
            c.arg("-q");
            if sel.recursive {
                c.arg("-r");
            }
            c.args(&sel.inputs);
            c.current_dir(b.base()).env_remove("TXTPP_FILE").stdout(std::process::Stdio::null()).stderr(std::process::Stdio::null());
            let _ = status_with_timeout(&mut c, 40.0);
            rep.tv(1);
            rep.tr(1);
            let trace = std::fs::read_to_string(&tracefile).unwrap_or_default();
            let proc_set = p.processed(sel, mode);
            let allowed: BTreeSet<String> = p.generated_of(&proc_set);
            let base = b.base();
            for (call, path) in mutations(&trace) {
                let abs = if path.starts_with('/') { std::path::PathBuf::from(&path) } else { base.join(&path) };
                let rel = match abs.strip_prefix(&base) {
                    Ok(r) => crate::model::resolve("", &r.to_string_lossy()).unwrap_or_default(),
                    Err(_) => {
                        if path.starts_with("/dev/") || path.starts_with("/proc/") {
                            continue;
                        }
                        rep.violate(
                            "path-outside-the-project-touched",
                            format!("[{pname}] start={start} mode={:?} inputs={:?}: txtpp called {call}({path:?})", mode, sel.inputs),
                            json!({"engine": "strace10", "project": pname, "start": start, "mode": mi, "sel": si}),
                        );
                        continue;
                    }
                };
                rep.add("file_system_mutations_observed", 1);
                if !allowed.contains(&rel) {
                    rep.violate(
                        "foreign-path-touched-during-run",
                        format!("[{pname}] start={start} mode={:?} inputs={:?}: txtpp called {call}({path:?}); neither an output nor a temp target of the processed sources", mode, sel.inputs),
                        json!({"engine": "strace10", "project": pname, "start": start, "mode": mi, "sel": si}),
                    );
                }
            }
}

pub fn run_into(rep: &Report) {
    if !strace_ok() {
        rep.set("syscall_level_observation", json!("unavailable: strace cannot trace here"));
        return;
    }
    let mut jobs = vec![];
    for pname in ["solo", "chain", "nested", "empty", "errsrc"] {
        let p = project(pname);
        for start in ["pristine", "built", "stale"] {
            for (mi, _) in MODES.iter().enumerate() {
                for si in 0..p.sels.len() {
                    // (this engine drives the binary, which cannot express an empty input list)
                    if p.sels[si].inputs.is_empty() {
                        continue;
                    }
                    jobs.push((pname, start, mi, si));
                }
            }
        }
    }
    rep.set("syscall_level_runs", json!(jobs.len()));
    sharded_dyn(rep, par_threads() * 2, |_k, _n, next, rep| {
        let b = Bench::new();
        let mut fc = FreshCache::new();
        loop {
            let i = next();
            if i >= jobs.len() {
                break;
            }
            if rep.over_cap() {
                rep.note_cap("wall-clock cap in the syscall-level pass");
                break;
            }
            let (pname, start, mi, si) = jobs[i];
            run_job(rep, &b, &mut fc, pname, start, mi, si);
        }
    });
}

// ---------------------------------------------------------------- file names that are not UTF-8

fn raw_walk(root: &std::path::Path, rel: &[u8], out: &mut std::collections::BTreeMap<Vec<u8>, (Vec<u8>, u64, i128)>) {
    use std::os::unix::ffi::{OsStrExt, OsStringExt};
    use std::os::unix::fs::MetadataExt;
    let dir = if rel.is_empty() { root.to_path_buf() } else { root.join(std::ffi::OsStr::from_bytes(rel)) };
    if let Ok(rd) = std::fs::read_dir(&dir) {
        for e in rd.flatten() {
            let name = e.file_name().into_vec();
            let mut r = rel.to_vec();
            if !r.is_empty() {
                r.push(b'/');
            }
            r.extend_from_slice(&name);
            let p = root.join(std::ffi::OsStr::from_bytes(&r));
            if let Ok(md) = std::fs::symlink_metadata(&p) {
                if md.is_dir() {
                    raw_walk(root, &r, out);
                } else {
                    out.insert(r, (std::fs::read(&p).unwrap_or_default(), md.ino(), md.mtime() as i128 * 1_000_000_000 + md.mtime_nsec() as i128));
                }
            }
        }
    }
}

/// Sources and directories whose names are not valid UTF-8 (legal on Linux), with by-standers at the names a
/// lossy conversion would produce. Every mode: only the real output and the temp target may change.
pub fn nonutf8_names(rep: &Report) {
    use std::os::unix::ffi::OsStrExt;
    let os = |b: &[u8]| std::ffi::OsStr::from_bytes(b).to_os_string();
    for (mi, mode) in MODES.iter().enumerate() {
        for built in [false, true] {
            let scratch = Scratch::new();
            let base = scratch.p("p");
            std::fs::create_dir_all(base.join(os(b"d\xff"))).unwrap();
            std::fs::create_dir_all(base.join(os("d\u{fffd}".as_bytes()))).unwrap();
            let w = |rel: &[u8], content: &[u8]| std::fs::write(base.join(os(rel)), content).unwrap();
            w(b"caf\xe9.txt.txtpp", b"x\n-TXTPP#temp t.out\n-b\n");
            w(b"d\xff/inner.txt.txtpp", b"inner\n");
            w("caf\u{fffd}.txt".as_bytes(), b"by-stander\n");
            w("d\u{fffd}/inner.txt".as_bytes(), b"by-stander\n");
            w(b"caf.txt", b"by-stander\n");
            if built {
                w(b"caf\xe9.txt", b"x\n");
                w(b"t.out", b"b");
                w(b"d\xff/inner.txt", b"inner\n");
            }
            set_sentinel(&base);
            let mut before = Default::default();
            raw_walk(&base, b"", &mut before);
            let r = crate::ctl::run_canonical(txtpp::Config {
                base_dir: base.clone(),
                shell_cmd: String::new(),
                inputs: vec![".".into()],
                recursive: true,
                num_threads: 1,
                mode: mode.clone(),
                verbosity: txtpp::Verbosity::Quiet,
                trailing_newline: true,
            });
            rep.tv(1);
            rep.tr(1);
            rep.add("non_utf8_name_runs", 1);
            let mut after = Default::default();
            raw_walk(&base, b"", &mut after);
            let allowed: Vec<&[u8]> = vec![b"caf\xe9.txt", b"t.out", b"d\xff/inner.txt"];
            let keys: BTreeSet<&Vec<u8>> = before.keys().chain(after.keys()).collect();
            for k in keys {
                if before.get(k) != after.get(k) && !allowed.iter().any(|a| *a == &k[..]) {
                    rep.violate(
                        "foreign-path-touched",
                        format!("non-UTF-8 names, mode {:?}, outputs {}: {:?} changed (verdict {})", mode, if built { "present" } else { "absent" }, show(k), r.verdict.kind()),
                        json!({"engine": "strace10", "nonutf8": true, "mode": mi, "built": built}),
                    );
                }
            }
            if !r.clean() {
                rep.violate("abnormal-end", format!("non-UTF-8 names, mode {:?}: {}", mode, r.verdict.kind()), json!({"engine": "strace10", "nonutf8": true, "mode": mi, "built": built}));
            }
        }
    }
}

pub fn replay(v: &serde_json::Value) -> bool {
    if v["nonutf8"].as_bool() == Some(true) {
        let rep = Report::new("C10", "quick");
        nonutf8_names(&rep);
        for x in rep.violations.lock().unwrap().iter() {
            println!("  [{}] {}", x.signature, x.message);
        }
        return rep.n_violations() > 0;
    }
    let rep = Report::new("C10", "quick");
    let b = Bench::new();
    let mut fc = FreshCache::new();
    let pname = v["project"].as_str().unwrap_or("solo").to_string();
    let start = v["start"].as_str().unwrap_or("pristine").to_string();
    run_job(&rep, &b, &mut fc, &pname, &start, v["mode"].as_u64().unwrap_or(0) as usize, v["sel"].as_u64().unwrap_or(0) as usize);
    for x in rep.violations.lock().unwrap().iter() {
        println!("  [{}] {}", x.signature, x.message);
    }
    rep.n_violations() > 0
}
