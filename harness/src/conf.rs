//! Engine E-conf (C17): the contract of `run` commands over every combination of nesting depth,
//! base-directory/cwd relation, entry point, shell and command shape.
#![allow(dead_code)]

use crate::ctl::*;
use crate::util::*;
use serde_json::{json, Value};
use std::path::{Path, PathBuf};
use txtpp::{Config, Verbosity};

const RELS: [&str; 4] = ["equal", "cwd-ancestor-of-base", "cwd-inside-base", "unrelated"];
const SHELLS: [&str; 6] = ["default", "bash -c", "argv-script", "/bin/sh  -e   -c", "bash --norc -c", "argv-script extra1 extra2"];
const NAME_SHAPES: [(&str, &str); 3] = [("s.txt.txtpp", "s.txt"), ("s.txtpp.txt", "s.txt"), ("s.txtpp", "s")];
/// (name, source lines of the command directive, expected stdout under sh, the single argument the shell must see)
const SHAPES: [(&str, &[&str], &str, &str); 6] = [
    ("stderr-is-not-output", &["-TXTPP#run echo out; echo err >&2"], "out\n", "echo out; echo err >&2"),
    ("empty-continuation-line", &["-TXTPP#run echo a", "-", "-  b  "], "a b\n", "echo a    b"),
    ("one-line", &["-TXTPP#run echo a  b"], "a b\n", "echo a  b"),
    ("three-lines", &["-TXTPP#run echo a", "-b", "-c"], "a b c\n", "echo a b c"),
    ("inner-double-space", &["-TXTPP#run echo \"a  b\""], "a  b\n", "echo \"a  b\""),
    // stdout that is not valid UTF-8 still becomes the directive output (how the invalid byte is rendered is not compared)
    ("stdout-not-utf8", &["-TXTPP#run printf 'a\\377b\\n'"], "a?b\n", "printf 'a\\377b\\n'"),
];

/// child process: run the library entry point from the current working directory
pub fn child_main(arg: &str) -> i32 {
    let v: Value = serde_json::from_str(arg).expect("child json");
    let cfg = Config {
        base_dir: PathBuf::from(v["base"].as_str().unwrap()),
        shell_cmd: v["shell"].as_str().unwrap_or("").to_string(),
        inputs: v["inputs"].as_array().unwrap().iter().map(|x| x.as_str().unwrap().to_string()).collect(),
        recursive: true,
        num_threads: 4,
        mode: crate::sched::mode_from(v["mode"].as_str().unwrap_or("Build")),
        verbosity: Verbosity::Quiet,
        trailing_newline: true,
    };
    start_watchdog(std::time::Duration::from_secs(30));
    let r = run_canonical(cfg);
    println!("{}", r.verdict.kind());
    if !r.worker_panics.is_empty() {
        println!("WORKER-PANIC");
    }
    0
}

fn run_library_child(cwd: &Path, base: &str, shell: &str, mode: &str) -> String {
    run_library_child_inputs(cwd, base, shell, mode, &["."])
}

fn run_library_child_inputs(cwd: &Path, base: &str, shell: &str, mode: &str, inputs: &[&str]) -> String {
    let arg = json!({"base": base, "shell": shell, "inputs": inputs, "mode": mode}).to_string();
    let exe = std::env::current_exe().unwrap();
    let mut c = std::process::Command::new(exe);
    c.arg("conf-child").arg(arg).current_dir(cwd).env_remove("TXTPP_FILE").stdin(std::process::Stdio::null());
    let (_st, out, to) = output_with_timeout(&mut c, 40.0);
    if to {
        return "Timeout".to_string();
    }
    String::from_utf8_lossy(&out).lines().next().unwrap_or("NoVerdict").to_string()
}

struct Layout {
    scratch: Scratch,
    base: PathBuf,
    cwd: PathBuf,
    base_arg: String,
    src_dir: PathBuf,
}

fn layout(depth: usize, rel: &str) -> Layout {
    let scratch = Scratch::new();
    let base = scratch.p("w/proj");
    let mut src_dir = base.clone();
    for d in 0..depth {
        src_dir = src_dir.join(format!("d{}", d + 1));
    }
    std::fs::create_dir_all(&src_dir).unwrap();
    std::fs::create_dir_all(base.join("inner")).unwrap();
    std::fs::create_dir_all(scratch.p("other")).unwrap();
    let (cwd, base_arg) = match rel {
        "equal" => (base.clone(), ".".to_string()),
        "cwd-ancestor-of-base" => (scratch.p("w"), "proj".to_string()),
        "cwd-inside-base" => (base.join("inner"), "..".to_string()),
        _ => (scratch.p("other"), base.to_string_lossy().to_string()),
    };
    // entries named like the shells in the process working directory: a bare shell name is looked up on PATH, never here
    let _ = std::fs::create_dir_all(cwd.join("sh"));
    let _ = std::fs::write(cwd.join("bash"), "not a program\n");
    Layout { scratch, base, cwd, base_arg, src_dir }
}

fn argv_script(dir: &Path) -> String {
    let p = dir.join("argv.sh");
    std::fs::write(&p, "#!/bin/sh\nprintf 'argc=%s\\n' \"$#\"\nfor a in \"$@\"; do printf '[%s]\\n' \"$a\"; done\n").unwrap();
    use std::os::unix::fs::PermissionsExt;
    std::fs::set_permissions(&p, std::fs::Permissions::from_mode(0o755)).unwrap();
    p.to_string_lossy().to_string()
}

fn designates(txtpp_file: &str, src: &Path, base: &Path, cmd_dir: &Path) -> bool {
    let cands = [PathBuf::from(txtpp_file), base.join(txtpp_file), cmd_dir.join(txtpp_file)];
    let want = src.canonicalize().ok();
    !txtpp_file.is_empty() && cands.iter().any(|c| (c.is_absolute()) && c.canonicalize().ok() == want && want.is_some())
}

#[derive(Clone, Debug)]
struct ConfCase {
    depth: usize,
    rel: &'static str,
    entry: &'static str,
    shell: &'static str,
    /// Some(shape index) or None for the exit-code source
    shape: Option<usize>,
    exit: i32,
}

fn cases() -> Vec<ConfCase> {
    let mut v = vec![];
    for depth in 0..=3 {
        for entry in ["library", "cli"] {
            for rel in RELS {
                if entry == "cli" && rel != "equal" {
                    continue; // the binary's base directory is its working directory
                }
                for shell in SHELLS {
                    for s in 0..SHAPES.len() {
                        v.push(ConfCase { depth, rel, entry, shell, shape: Some(s), exit: 0 });
                    }
                    for exit in [0, 1, 7, -9] {
                        v.push(ConfCase { depth, rel, entry, shell, shape: None, exit });
                    }
                }
            }
        }
    }
    v
}

fn case_json(c: &ConfCase) -> Value {
    json!({"engine": "E-conf", "depth": c.depth, "rel": c.rel, "entry": c.entry, "shell": c.shell, "shape": c.shape, "exit": c.exit})
}

fn run_case(rep: &Report, c: &ConfCase) {
    let l = layout(c.depth, c.rel);
    let script = argv_script(&l.scratch.path);
    let shell_cmd = match c.shell {
        "default" => String::new(),
        "argv-script" => script.clone(),
        "argv-script extra1 extra2" => format!("{script} extra1 extra2"),
        other => other.to_string(),
    };
    let argv_shell = c.shell.starts_with("argv-script");
    let extra_args = if c.shell == "argv-script extra1 extra2" { 2 } else { 0 };
    let (src_name, out_name) = NAME_SHAPES[c.depth % 3];
    let src = l.src_dir.join(src_name);
    let out = l.src_dir.join(out_name);
    let text = match c.shape {
        Some(s) => {
            // at depth >= 2 the source also has a .txtpp dependency: the commands run in its second pass
            let mut t = String::new();
            if c.depth >= 2 {
                std::fs::write(l.src_dir.join("dep.txt.txtpp"), "D\n").unwrap();
                t.push_str("TXTPP#include dep.txt\n");
            }
            t.push_str("-TXTPP#run pwd -P\n+TXTPP#run printf '%s\\n' \"$TXTPP_FILE\"\n");
            for line in SHAPES[s].1 {
                t.push_str(line);
                t.push('\n');
            }
            t.push_str("END\n");
            t
        }
        // a negative "exit code" means: the shell process kills itself with that signal
        None if c.exit < 0 => format!("before\n-TXTPP#run printf partial; kill -{} $$\nafter\n", -c.exit),
        None => format!("before\n-TXTPP#run exit {}\nafter\n", c.exit),
    };
    std::fs::write(&src, &text).unwrap();
    let verdict_ok = if c.entry == "library" {
        let v = run_library_child(&l.cwd, &l.base_arg, &shell_cmd, "Build");
        if v != "Ok" && v != "Err" {
            rep.violate("no-verdict", format!("{:?}: library run ended with {v}", c), case_json(c));
            return;
        }
        v == "Ok"
    } else {
        let mut args = vec!["-q", "-r"];
        if !shell_cmd.is_empty() {
            args.push("-s");
            args.push(&shell_cmd);
        }
        args.push(".");
        let (code, to) = run_cli(&l.cwd, &args, &[], 30.0);
        if to || (code != 0 && code != 1) {
            rep.violate("cli-abnormal-exit", format!("{:?}: txtpp exit {code} timeout={to}", c), case_json(c));
            return;
        }
        code == 0
    };
    rep.tv(1);
    let got = std::fs::read(&out).ok().map(|b| String::from_utf8_lossy(&b).to_string());
    let real_dir = l.src_dir.canonicalize().unwrap();
    match c.shape {
        None => {
            rep.add("exit_code_cases", 1);
            // the argv script itself always exits 0, whatever the command text says
            let expected_ok = argv_shell || c.exit == 0;
            if verdict_ok != expected_ok {
                rep.violate(
                    "exit-status",
                    format!("{:?}: the shell process {} but the build {}", c, if expected_ok { "exits 0".to_string() } else if c.exit < 0 { format!("is killed by signal {}", -c.exit) } else { format!("exits {}", c.exit) }, if verdict_ok { "succeeded" } else { "failed" }),
                    case_json(c),
                );
            }
        }
        Some(s) => {
            rep.add("contract_cases", 1);
            if !verdict_ok {
                rep.violate(
                    if c.depth > 0 && c.rel != "equal" { "cwd-when-base-differs" } else { "command-failed" },
                    format!("{:?}: build failed although every command exits 0 (source {}, process cwd {}, base {})", c, src.display(), l.cwd.display(), l.base_arg),
                    case_json(c),
                );
                return;
            }
            let mut got = got.unwrap_or_default();
            if c.depth >= 2 {
                match got.strip_prefix("D\n") {
                    Some(rest) => got = rest.to_string(),
                    None => {
                        rep.violate("dependency-output-missing", format!("{:?}: output does not start with the included dependency: {:?}", c, got), case_json(c));
                        return;
                    }
                }
            }
            let lines: Vec<&str> = got.lines().collect();
            if argv_shell {
                // every command line is echoed as argc + the configured extra arguments + the single command argument
                let pre = if extra_args == 2 { "[extra1]\n[extra2]\n" } else { "" };
                let n = 1 + extra_args;
                let want = format!("argc={n}\n{pre}[pwd -P]\nargc={n}\n{pre}[printf '%s\\n' \"$TXTPP_FILE\"]\nargc={n}\n{pre}[{}]\nEND\n", SHAPES[s].3);
                if got != want {
                    rep.violate("shell-argv", format!("{:?}: the configured shell saw {:?}, expected {:?}", c, got, want), case_json(c));
                }
            } else {
                if lines.first().map(|p| Path::new(p)) != Some(real_dir.as_path()) {
                    rep.violate(
                        "working-directory",
                        format!("{:?}: command ran in {:?}, the source is in {:?}", c, lines.first(), real_dir),
                        case_json(c),
                    );
                }
                let tf = lines.get(1).cloned().unwrap_or("");
                if !designates(tf, &src, &l.base, &real_dir) {
                    rep.violate("txtpp-file", format!("{:?}: TXTPP_FILE={tf:?} does not designate {}", c, src.display()), case_json(c));
                }
                let rest: String = lines.iter().skip(2).map(|x| format!("{x}\n")).collect();
                let rest_ok = if SHAPES[s].0 == "stdout-not-utf8" { rest.starts_with('a') && rest.ends_with("b\nEND\n") && rest.lines().count() == 2 } else { rest == format!("{}END\n", SHAPES[s].2) };
                if !rest_ok {
                    rep.violate("command-text", format!("{:?}: command printed {:?}, expected {:?}", c, rest, SHAPES[s].2), case_json(c));
                }
            }
        }
    }
}

/// A source that enters the run only as a dependency of another source (the other one is the only input):
/// its commands still run in ITS directory and TXTPP_FILE designates IT. Dependency below and above the depender.
fn dependency_case(rep: &Report, depth: usize, rel: &'static str, entry: &'static str, up: bool) {
    let l = layout(depth, rel);
    let dep_dir = if up { l.src_dir.parent().unwrap().to_path_buf() } else { l.src_dir.join("deep") };
    std::fs::create_dir_all(&dep_dir).unwrap();
    let dep_src = dep_dir.join("b.txt.txtpp");
    std::fs::write(&dep_src, "-TXTPP#run pwd -P\n+TXTPP#run printf '%s\\n' \"$TXTPP_FILE\"\nB\n").unwrap();
    std::fs::write(l.src_dir.join("a.txt.txtpp"), format!("TXTPP#include {}\nA\n", if up { "../b.txt" } else { "deep/b.txt" })).unwrap();
    let a_rel = l.src_dir.join("a.txt").strip_prefix(&l.base).unwrap().to_string_lossy().to_string();
    let cj = json!({"engine": "E-conf", "dependency": true, "depth": depth, "rel": rel, "entry": entry, "up": up});
    let what = format!("dependency {} the depender at depth {depth}, base/cwd relation {rel}, entry {entry}", if up { "one level above" } else { "below" });
    let ok = if entry == "library" {
        run_library_child_inputs(&l.cwd, &l.base_arg, "", "Build", &[&a_rel]) == "Ok"
    } else {
        let (code, to) = run_cli(&l.cwd, &["-q", &a_rel], &[], 30.0);
        !to && code == 0
    };
    rep.tv(1);
    rep.add("dependency_first_cases", 1);
    if !ok {
        rep.violate("command-failed", format!("{what}: the build of {a_rel} failed"), cj);
        return;
    }
    let got = std::fs::read(dep_dir.join("b.txt")).ok().map(|b| String::from_utf8_lossy(&b).to_string()).unwrap_or_default();
    let lines: Vec<&str> = got.lines().collect();
    let real_dir = dep_dir.canonicalize().unwrap();
    if lines.first().map(|p| Path::new(p)) != Some(real_dir.as_path()) {
        rep.violate("working-directory", format!("{what}: the dependency's command ran in {:?}, its source is in {:?}", lines.first(), real_dir), cj.clone());
    }
    let tf = lines.get(1).cloned().unwrap_or("");
    if !designates(tf, &dep_src, &l.base, &real_dir) {
        rep.violate("txtpp-file", format!("{what}: TXTPP_FILE={tf:?} does not designate {}", dep_src.display()), cj);
    }
}

fn dependency_cases(rep: &Report) {
    for depth in 0..=3usize {
        for (entry, rels) in [("library", &RELS[..]), ("cli", &["equal"][..])] {
            for rel in rels {
                let rel: &'static str = RELS.iter().find(|r| *r == rel).copied().unwrap_or("equal");
                dependency_case(rep, depth, rel, entry, false);
                if depth >= 1 {
                    dependency_case(rep, depth, rel, entry, true);
                }
            }
        }
    }
}

fn guard_cases(rep: &Report) {
    // the binary refuses to start when TXTPP_FILE is already set — in every mode; nothing is touched
    // (values that are not UTF-8 are "set" too)
    let values: [(Vec<&str>, &[u8]); 9] = [(vec![], b"whatever"), (vec!["-N"], b"whatever"), (vec!["verify"], b"whatever"), (vec!["clean"], b"whatever"), (vec![], b" "), (vec!["verify"], b"x y"), (vec![], b"\xff"), (vec!["clean"], b"caf\xe9/s.txt.txtpp"), (vec!["-N"], b"\xc3")];
    for (mode_args, value) in values {
        use std::os::unix::ffi::OsStrExt;
        let value_os = std::ffi::OsStr::from_bytes(value);
        let value = show(value);
        let l = layout(1, "equal");
        std::fs::write(l.src_dir.join("s.txt.txtpp"), "x\n-TXTPP#temp t.out\n-y\n").unwrap();
        std::fs::write(l.src_dir.join("s.txt"), "old\n").unwrap();
        std::fs::write(l.src_dir.join("t.out"), "old\n").unwrap();
        set_sentinel(&l.base);
        let before = snapshot(&l.base);
        let mut args: Vec<&str> = mode_args.clone();
        args.extend(["-q", "-r", "."]);
        let (code, to) = run_cli_os(&l.cwd, &args, &[("TXTPP_FILE", value_os)], 30.0);
        rep.tv(1);
        rep.add("guard_cases", 1);
        let after = snapshot(&l.base);
        let ch = changed_paths(&before, &after);
        if to || code == 0 || !ch.is_empty() {
            rep.violate(
                "subcommand-guard",
                format!("txtpp {:?} with TXTPP_FILE={value:?}: exit {code} timeout={to}, changed paths {:?}", args, ch),
                json!({"engine": "E-conf", "guard": mode_args}),
            );
        }
        // empty value: README says "if set"; the code treats empty as unset — not compared
    }
    // a source that calls the txtpp binary: the inner txtpp must refuse, so the build fails -
    // also when the source's own name or directory is not valid UTF-8 (whatever TXTPP_FILE then holds, it is set)
    for (dir, name) in [(&b""[..], &b"s.txt.txtpp"[..]), (b"", b"caf\xff.txt.txtpp"), (b"d\xe9", b"s.txt.txtpp")] {
        use std::os::unix::ffi::OsStrExt;
        let l = layout(0, "equal");
        let d = l.base.join(std::ffi::OsStr::from_bytes(dir));
        std::fs::create_dir_all(&d).unwrap();
        std::fs::write(d.join(std::ffi::OsStr::from_bytes(name)), "-TXTPP#run txtpp -q ../inner || txtpp -q inner\n").unwrap();
        std::fs::create_dir_all(l.base.join("inner")).unwrap();
        std::fs::write(l.base.join("inner/i.txt.txtpp"), "inner\n").unwrap();
        let path = format!("{}:{}", production_cli().parent().unwrap().display(), std::env::var("PATH").unwrap_or_default());
        let (code, to) = run_cli(&l.cwd, &["-q", "-r", "."], &[("PATH", &path)], 30.0);
        rep.tv(1);
        rep.add("guard_cases", 1);
        if to || code != 1 {
            rep.violate(
                "recursion-into-txtpp",
                format!("a run command in {:?}/{:?} that calls txtpp: outer exit {code} timeout={to} (the inner txtpp must refuse to start, which fails the command)", show(dir), show(name)),
                json!({"engine": "E-conf", "guard": "recursion"}),
            );
        }
    }
}

pub fn run_c17(tier: &str) -> i32 {
    let rep = Report::new("C17", tier);
    let cs = cases();
    rep.set("cases_planned", json!(cs.len()));
    rep.set("bounds", json!("depth 0..3 x {library x 4 base/cwd relations, CLI x cwd=base} x 6 shells (default, bash -c, shells with several arguments and repeated blanks, an argv-echo script with and without extra arguments) x three source-name shapes x (6 command shapes + exit codes 0/1/7 + death by SIGKILL); TXTPP_FILE guard in 4 modes; a source that calls txtpp; a source with commands that enters the run only as a dependency (below / above the depender, depth 0..3, every base/cwd relation, library and CLI)"));
    rep.assume("TXTPP_FILE 'designates' the source if it resolves to it as an absolute path, relative to the base directory or relative to the command's directory (Q5)");
    rep.st(4 * 4 * 6);
    sharded_dyn(&rep, par_threads(), |k, _n, next, rep| {
        loop {
            let i = next();
            if i >= cs.len() {
                break;
            }
            run_case(rep, &cs[i]);
            rep.tr(1);
            if i % 97 == 0 {
                rep.sample(json!({"case": format!("{:?}", cs[i])}));
            }
        }
        if k == 0 {
            guard_cases(rep);
        }
        if k == 1 % _n {
            dependency_cases(rep);
        }
    });
    rep.finish()
}

pub fn replay(v: &Value) -> bool {
    let rep = Report::new("C17", "quick");
    if v.get("guard").is_some() {
        guard_cases(&rep);
    } else if v.get("dependency").is_some() {
        let rel = RELS.iter().find(|r| Some(**r) == v["rel"].as_str()).copied().unwrap_or("equal");
        dependency_case(&rep, v["depth"].as_u64().unwrap_or(0) as usize, rel, if v["entry"].as_str() == Some("cli") { "cli" } else { "library" }, v["up"].as_bool().unwrap_or(false));
    } else {
        let rel = RELS.iter().find(|r| Some(**r) == v["rel"].as_str()).copied().unwrap_or("equal");
        let shell = SHELLS.iter().find(|r| Some(**r) == v["shell"].as_str()).copied().unwrap_or("default");
        let c = ConfCase {
            depth: v["depth"].as_u64().unwrap_or(0) as usize,
            rel,
            entry: if v["entry"].as_str() == Some("cli") { "cli" } else { "library" },
            shell,
            shape: v["shape"].as_u64().map(|x| x as usize),
            exit: v["exit"].as_i64().unwrap_or(0) as i32,
        };
        run_case(&rep, &c);
    }
    for x in rep.violations.lock().unwrap().iter() {
        println!("  [{}] {}", x.signature, x.message);
    }
    rep.n_violations() > 0
}
