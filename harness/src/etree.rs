//! Engine E-tree (C11): which sources are processed, and where their outputs go, over all small
//! directory trees x input lists x recursion x mode.
#![allow(dead_code)]

use crate::ctl::*;
use crate::model::{file_name, is_source_name, output_path, resolve, MTree};
use crate::util::*;
use serde_json::{json, Value};
use std::collections::{BTreeMap, BTreeSet};
use txtpp::{Config, Mode, Verbosity};

pub const DIRS: [&str; 3] = ["", "sub", "sub/deep"];
pub const SHAPES: [&str; 3] = ["a.txt.txtpp", "b.txtpp.txt", "c.txtpp"];
pub const DOTTED: [&str; 3] = ["g.h.i.txtpp", "g2.h.txtpp.i", "g3.h.txtpp"];
pub const LOOKALIKES: [&str; 6] = ["txtpp", ".txtpp", ".txtpp.x", "d.txtpp.b.c", "e.txt", "F.TXTPP"];
pub const SPELLINGS: [&str; 26] = [
    "a.txtpp.txt", "sub/b.txt.txtpp", "sub/", "./", ".", "sub", "sub/deep", "./sub/..", "a.txt", "a.txt.txtpp", "./a.txt", "sub/../a.txt", "ABS:a.txt", "sub/b.txt", "sub/deep/c", "missing.txt",
    "missing.txtpp", "e.txt", "txtpp", "subx", "sub/deeper/", "subl", "la.txt", "dl", "dl/..", "dl/../b.txt",
];

fn join(d: &str, n: &str) -> String {
    if d.is_empty() {
        n.to_string()
    } else {
        format!("{d}/{n}")
    }
}

#[derive(Clone, Debug)]
pub struct TreeSpec {
    pub masks: [u8; 3],
    pub dotted: bool,
    /// top-level a.txt.txtpp includes sub/b.txt
    pub include_variant: bool,
    /// directories whose own names look like sources (conf.txtpp.d/, sub/tpl.txtpp/) hold sources too
    pub dirlike: bool,
    /// a directory whose name is the OUTPUT name of a sibling source (n/ next to n.txtpp, site.v3/ next to
    /// site.txtpp.v3): naming it as an input means the directory. Only by-name inputs of the directories are
    /// run on this variant (building the sibling source itself cannot succeed: its output path is occupied).
    pub outdir: bool,
}

impl TreeSpec {
    pub fn sources(&self) -> Vec<String> {
        let mut v = vec![];
        for (di, d) in DIRS.iter().enumerate() {
            for (si, s) in SHAPES.iter().enumerate() {
                if self.masks[di] >> si & 1 == 1 {
                    v.push(join(d, s));
                }
            }
            if self.dotted {
                for s in DOTTED {
                    v.push(join(d, s));
                }
            }
        }
        if self.outdir {
            v.push("n.txtpp".to_string());
            v.push("n/a.txt.txtpp".to_string());
            v.push("site.txtpp.v3".to_string());
            v.push("site.v3/b.txtpp.txt".to_string());
            v.push("site.v3/inner/c.txtpp".to_string());
        }
        if self.dirlike {
            v.push("conf.txtpp.d/a.txt.txtpp".to_string());
            v.push("sub/tpl.txtpp/c.txtpp".to_string());
            // hard links: the same inode under two source names is two sources (two outputs)
            if self.masks[0] & 1 == 1 {
                v.push("sub/hl.txt.txtpp".to_string());
                v.push("hl2.txtpp.md".to_string());
            }
            // sibling directories whose names have another directory's name as a string prefix
            v.push("subx/a.txt.txtpp".to_string());
            v.push("sub/deeper/b.txtpp.txt".to_string());
        }
        v
    }
    pub fn includes(&self) -> bool {
        self.include_variant && self.masks[0] & 1 == 1 && self.masks[1] & 2 == 2
    }
    /// sub/b.txtpp.txt additionally depends on sub/deep/c.txtpp
    pub fn includes2(&self) -> bool {
        self.includes() && self.masks[2] & 4 == 4
    }
    pub fn tree(&self) -> Tree {
        let mut t = Tree::new();
        for d in DIRS {
            for l in LOOKALIKES {
                tfile(&mut t, &join(d, l), format!("lookalike {l}\n"));
            }
        }
        for s in self.sources() {
            let body = if s == "sub/hl.txt.txtpp" || s == "hl2.txtpp.md" {
                "-TXTPP#write a.txt.txtpp\n".to_string()
            } else if s == "a.txt.txtpp" && self.includes() {
                format!("TXTPP#include sub/b.txt\n-TXTPP#write {s}\n")
            } else if s == "sub/b.txtpp.txt" && self.includes2() {
                format!("TXTPP#after deep/c\n-TXTPP#write {s}\n")
            } else {
                format!("-TXTPP#write {s}\n")
            };
            tfile(&mut t, &s, body);
        }
        if self.dirlike {
            // second names through symbolic links: a directory link and (if its target exists) a file link
            t.insert("subl".into(), Node::Link("sub".into()));
            // a link two levels down: `dl/..` is sub/, not the base directory
            t.insert("dl".into(), Node::Link("sub/deep".into()));
            if self.masks[0] & 1 == 1 {
                t.insert("la.txt.txtpp".into(), Node::Link("a.txt.txtpp".into()));
            }
        }
        t
    }
    /// the spelling of an input with symbolic links replaced by their targets
    pub fn through_links(&self, inp: &str) -> String {
        if !self.dirlike {
            return inp.to_string();
        }
        let p = inp.trim_end_matches('/');
        if p == "subl" || p.starts_with("subl/") {
            return format!("sub{}", &p[4..]);
        }
        if p == "dl" {
            return "sub/deep".to_string();
        }
        if p == "dl/.." {
            return "sub".to_string();
        }
        if let Some(rest) = p.strip_prefix("dl/../") {
            return format!("sub/{rest}");
        }
        if self.masks[0] & 1 == 1 && (p == "la.txt" || p == "la.txt.txtpp") {
            return p.replacen("la.txt", "a.txt", 1);
        }
        inp.to_string()
    }
    pub fn expected_output(&self, s: &str) -> Vec<u8> {
        if s == "sub/hl.txt.txtpp" || s == "hl2.txtpp.md" {
            return b"a.txt.txtpp\n".to_vec();
        }
        if s == "a.txt.txtpp" && self.includes() {
            format!("sub/b.txtpp.txt\n{s}\n").into_bytes()
        } else {
            format!("{s}\n").into_bytes()
        }
    }
    pub fn to_json(&self) -> Value {
        json!({"masks": self.masks, "dotted": self.dotted, "include_variant": self.include_variant, "dirlike": self.dirlike, "outdir": self.outdir})
    }
    pub fn from_json(v: &Value) -> TreeSpec {
        let m: Vec<u8> = v["masks"].as_array().unwrap().iter().map(|x| x.as_u64().unwrap() as u8).collect();
        TreeSpec { masks: [m[0], m[1], m[2]], dotted: v["dotted"].as_bool().unwrap_or(false), include_variant: v["include_variant"].as_bool().unwrap_or(false), dirlike: v["dirlike"].as_bool().unwrap_or(false), outdir: v["outdir"].as_bool().unwrap_or(false) }
    }
}

/// Reference: the set of sources the statement says must be processed, or Err for a named target without source.
pub fn expected_set(spec: &TreeSpec, inputs: &[String], recursive: bool, mode: &Mode) -> Result<BTreeSet<String>, String> {
    let t = spec.tree();
    let mt = MTree::from_tree(&t);
    let mut set = BTreeSet::new();
    for inp in inputs {
        // a path through a component that does not exist names nothing (".." is not resolved lexically)
        if !spec.dirlike && (inp == "dl/.." || inp.starts_with("dl/../")) {
            return Err(format!("{inp}: no such file or directory"));
        }
        let inp = &spec.through_links(inp);
        let p = resolve("", inp).ok_or("escapes base")?;
        if mt.is_dir(&p) {
            for s in spec.sources() {
                let d = crate::model::dir_of(&s);
                let inside = if recursive { d == p || d.starts_with(&format!("{p}/")) || p.is_empty() } else { d == p };
                if inside {
                    set.insert(s);
                }
            }
        } else if is_source_name(file_name(&p)) {
            if mt.files.contains_key(&p) {
                set.insert(p);
            } else {
                return Err(format!("{inp}: no such source"));
            }
        } else {
            match mt.source_of(&p) {
                Some(s) => {
                    set.insert(s);
                }
                None => return Err(format!("{inp}: target without a source")),
            }
        }
    }
    if *mode != Mode::Clean && spec.includes() && set.contains("a.txt.txtpp") {
        set.insert("sub/b.txtpp.txt".to_string());
    }
    if *mode != Mode::Clean && spec.includes2() && set.contains("sub/b.txtpp.txt") {
        set.insert("sub/deep/c.txtpp".to_string());
    }
    Ok(set)
}

struct Env {
    scratch: Scratch,
}

impl Env {
    fn base(&self) -> std::path::PathBuf {
        self.scratch.p("proj")
    }
    fn setup(&self, t: &Tree) {
        let _ = std::fs::remove_dir_all(self.base());
        std::fs::create_dir_all(self.base()).unwrap();
        for d in DIRS {
            std::fs::create_dir_all(self.base().join(d)).unwrap();
        }
        write_tree(&self.base(), t);
        // the two "hl" sources of the source-like-directory variant are hard links of a.txt.txtpp
        let a = self.base().join("a.txt.txtpp");
        for l in ["sub/hl.txt.txtpp", "hl2.txtpp.md"] {
            let lp = self.base().join(l);
            if lp.exists() && a.exists() && std::fs::read(&lp).ok() == std::fs::read(&a).ok() {
                let _ = std::fs::remove_file(&lp);
                std::fs::hard_link(&a, &lp).unwrap();
            }
        }
    }
    fn run(&self, inputs: &[String], recursive: bool, mode: &Mode, rel_base: bool) -> RunResult {
        let base = if rel_base { self.base().strip_prefix("/").unwrap().to_path_buf() } else { self.base() };
        let inputs: Vec<String> = inputs
            .iter()
            .map(|i| match i.strip_prefix("ABS:") {
                Some(r) => self.base().join(r).to_string_lossy().to_string(),
                None => i.clone(),
            })
            .collect();
        run_canonical(Config {
            base_dir: base,
            shell_cmd: String::new(),
            inputs,
            recursive,
            num_threads: 12,
            mode: mode.clone(),
            verbosity: Verbosity::Quiet,
            trailing_newline: true,
        })
    }
}

fn processed_in_trace(r: &RunResult) -> BTreeMap<String, usize> {
    let mut m = BTreeMap::new();
    for e in &r.trace {
        if let Some(rest) = e.strip_prefix("B pp:") {
            if let Some(file) = rest.strip_suffix(":1") {
                *m.entry(file.to_string()).or_insert(0) += 1;
            }
        }
    }
    m
}

fn rj(spec: &TreeSpec, inputs: &[String], recursive: bool, mode: &Mode, rel: bool) -> Value {
    json!({"engine": "E-tree", "tree": spec.to_json(), "inputs": inputs, "recursive": recursive, "mode": format!("{:?}", mode), "rel_base": rel})
}

fn check_case(rep: &Report, env: &Env, spec: &TreeSpec, inputs: &[String], recursive: bool, mode: &Mode, rel: bool) {
    let inputs_plain: Vec<String> = inputs.iter().map(|i| i.strip_prefix("ABS:").map(|r| r.to_string()).unwrap_or(i.clone())).collect();
    let want = expected_set(spec, &inputs_plain, recursive, mode);
    let src_tree = spec.tree();
    let all_sources = spec.sources();
    let desc = format!("tree masks={:?}{}{} inputs={:?} recursive={} mode={:?} base={}", spec.masks, if spec.dotted { " +dotted" } else if spec.dirlike { " +source-like directory names" } else if spec.outdir { " +directories named like a sibling's output" } else { "" }, if spec.includes() { " +include" } else { "" }, inputs, recursive, mode, if rel { "relative" } else { "absolute" });
    let viol = |sig: &str, msg: String| rep.violate(sig, format!("{desc} :: {msg}"), rj(spec, inputs, recursive, mode, rel));
    match mode {
        Mode::Build | Mode::InMemoryBuild => {
            env.setup(&src_tree);
            let r = env.run(inputs, recursive, mode, rel);
            rep.tv(1);
            if !r.clean() {
                viol("abnormal-end", format!("{} {:?}", r.verdict.kind(), r.worker_panics));
                return;
            }
            let after = snapshot(&env.base());
            match &want {
                Err(e) => {
                    rep.add("cases_expecting_error", 1);
                    if r.verdict.is_ok() {
                        viol("missing-target-accepted", format!("run succeeded although {e}"));
                    }
                }
                Ok(set) => {
                    rep.add("cases_expecting_a_set", 1);
                    if !r.verdict.is_ok() {
                        viol("spurious-error", format!("run failed: {}", crate::sched::first_lines(&r.verdict.detail(), 5)));
                        return;
                    }
                    let seen = processed_in_trace(&r);
                    let seen_set: BTreeSet<String> = seen.keys().cloned().collect();
                    if seen_set != *set {
                        viol("wrong-set-processed", format!("processed {:?}, the statement prescribes {:?}", seen_set, set));
                    }
                    if let Some((f, n)) = seen.iter().find(|(_, n)| **n != 1) {
                        viol("processed-more-than-once", format!("{f} had {n} first passes"));
                    }
                    // outputs: exactly at the documented names, with their own content
                    let created: BTreeSet<String> = after.keys().filter(|k| !src_tree.contains_key(*k) && after[*k].node != Node::Dir).cloned().collect();
                    let want_out: BTreeMap<String, Vec<u8>> = set.iter().map(|s| (output_path(s).unwrap(), spec.expected_output(s))).collect();
                    let want_names: BTreeSet<String> = want_out.keys().cloned().collect();
                    if created != want_names {
                        let dotted_only = created.symmetric_difference(&want_names).all(|k| file_name(k).starts_with('g'));
                        viol(if dotted_only { "dotted-stem-output-name" } else { "wrong-output-names" }, format!("files created {:?}, expected outputs {:?}", created, want_names));
                    } else {
                        for (o, bytes) in &want_out {
                            if after.get(o).map(|m| &m.node) != Some(&Node::File(bytes.clone())) {
                                viol("wrong-output-content", format!("{o} does not hold the output of its own source"));
                            }
                        }
                    }
                    for (k, n) in &src_tree {
                        if after.get(k).map(|m| &m.node) != Some(n) {
                            viol("source-tree-modified", format!("{k} changed"));
                        }
                    }
                }
            }
        }
        Mode::Clean => {
            // from a fully built tree: which outputs disappear
            let mut t = src_tree.clone();
            for s in &all_sources {
                tfile(&mut t, &output_path(s).unwrap(), spec.expected_output(s));
            }
            env.setup(&t);
            let r = env.run(inputs, recursive, mode, rel);
            rep.tv(1);
            if !r.clean() {
                viol("abnormal-end", format!("{} {:?}", r.verdict.kind(), r.worker_panics));
                return;
            }
            let after = snapshot(&env.base());
            match &want {
                Err(e) => {
                    if r.verdict.is_ok() {
                        viol("missing-target-accepted", format!("clean succeeded although {e}"));
                    }
                }
                Ok(set) => {
                    if !r.verdict.is_ok() {
                        viol("spurious-error", format!("clean failed: {}", crate::sched::first_lines(&r.verdict.detail(), 5)));
                        return;
                    }
                    let gone: BTreeSet<String> = t.keys().filter(|k| !after.contains_key(*k)).cloned().collect();
                    let want_gone: BTreeSet<String> = set.iter().map(|s| output_path(s).unwrap()).collect();
                    if gone != want_gone {
                        let dotted_only = gone.symmetric_difference(&want_gone).all(|k| file_name(k).starts_with('g'));
                        viol(if dotted_only { "dotted-stem-output-name" } else { "wrong-set-cleaned" }, format!("clean removed {:?}, expected {:?}", gone, want_gone));
                    }
                }
            }
        }
        Mode::Verify => {
            let set = match &want {
                Ok(s) => s.clone(),
                Err(e) => {
                    env.setup(&src_tree);
                    let r = env.run(inputs, recursive, mode, rel);
                    rep.tv(1);
                    if r.verdict.is_ok() {
                        viol("missing-target-accepted", format!("verify succeeded although {e}"));
                    }
                    return;
                }
            };
            // every output that must NOT be looked at is wrong: verify still passes
            let mut t = src_tree.clone();
            for s in &all_sources {
                let o = output_path(s).unwrap();
                if set.contains(s) {
                    tfile(&mut t, &o, spec.expected_output(s));
                } else {
                    tfile(&mut t, &o, "tampered\n");
                }
            }
            env.setup(&t);
            let r = env.run(inputs, recursive, mode, rel);
            rep.tv(1);
            if !r.clean() {
                viol("abnormal-end", format!("{} {:?}", r.verdict.kind(), r.worker_panics));
                return;
            }
            if !r.verdict.is_ok() {
                let dotted = set.iter().any(|s| file_name(s).starts_with('g'));
                viol(if dotted { "dotted-stem-output-name" } else { "verify-looked-at-other-sources" }, format!("verify failed although exactly the outputs of {:?} are correct: {}", set, crate::sched::first_lines(&r.verdict.detail(), 4)));
                return;
            }
            // each output that must be looked at, wrong alone: verify fails
            for s in &set {
                let mut t2 = t.clone();
                tfile(&mut t2, &output_path(s).unwrap(), "tampered\n");
                env.setup(&t2);
                let r = env.run(inputs, recursive, mode, rel);
                rep.tv(1);
                if r.verdict.is_ok() {
                    viol("verify-skipped-a-source", format!("verify passed although the output of {s} is wrong"));
                }
            }
        }
    }
}

/// The same oracle through the production binary (src/main.rs maps inputs, -r, -N, verify, clean onto the
/// configuration): exit code and the files created / removed.
fn cli_case(rep: &Report, env: &Env, spec: &TreeSpec, inputs: &[String], recursive: bool, mode: &Mode) {
    let inputs_plain: Vec<String> = inputs.iter().map(|i| i.strip_prefix("ABS:").map(|r| r.to_string()).unwrap_or(i.clone())).collect();
    let want = expected_set(spec, &inputs_plain, recursive, mode);
    let src_tree = spec.tree();
    let all_sources = spec.sources();
    let mut args: Vec<String> = match mode {
        Mode::Build => vec![],
        Mode::InMemoryBuild => vec!["-N".into()],
        Mode::Verify => vec!["verify".into()],
        Mode::Clean => vec!["clean".into()],
    };
    args.push("-q".into());
    if recursive {
        args.push("-r".into());
    }
    for i in inputs {
        args.push(match i.strip_prefix("ABS:") {
            Some(r) => env.base().join(r).to_string_lossy().to_string(),
            None => i.clone(),
        });
    }
    let desc = format!("tree masks={:?}{} :: txtpp {:?}", spec.masks, if spec.dirlike { " +source-like directory names" } else if spec.includes() { " +include" } else { "" }, args);
    let rjv = json!({"engine": "E-tree", "cli": true, "tree": spec.to_json(), "inputs": inputs, "recursive": recursive, "mode": format!("{:?}", mode), "rel_base": false});
    let viol = |sig: &str, msg: String| rep.violate(sig, format!("{desc} :: {msg}"), rjv.clone());
    // pre-state
    let mut t = src_tree.clone();
    match mode {
        Mode::Build | Mode::InMemoryBuild => {}
        Mode::Clean => {
            for s in &all_sources {
                tfile(&mut t, &output_path(s).unwrap(), spec.expected_output(s));
            }
        }
        Mode::Verify => {
            for s in &all_sources {
                let in_set = want.as_ref().map(|set| set.contains(s)).unwrap_or(false);
                tfile(&mut t, &output_path(s).unwrap(), if in_set { spec.expected_output(s) } else { b"tampered\n".to_vec() });
            }
        }
    }
    env.setup(&t);
    let a: Vec<&str> = args.iter().map(|s| s.as_str()).collect();
    let (code, to) = run_cli(&env.base(), &a, &[], 30.0);
    rep.tv(1);
    rep.tr(1);
    rep.add("production_binary_cases", 1);
    if to || (code != 0 && code != 1) {
        viol("cli-abnormal-exit", format!("exit {code} timeout={to}"));
        return;
    }
    let after = snapshot(&env.base());
    match &want {
        Err(e) => {
            if code == 0 {
                viol("missing-target-accepted", format!("exit 0 although {e}"));
            }
        }
        Ok(set) => {
            if code != 0 {
                viol("spurious-error", "exit 1 although every named target has a source".to_string());
                return;
            }
            let created: BTreeSet<String> = after.keys().filter(|k| !t.contains_key(*k) && after[*k].node != Node::Dir).cloned().collect();
            let gone: BTreeSet<String> = t.keys().filter(|k| !after.contains_key(*k)).cloned().collect();
            let outs: BTreeSet<String> = set.iter().map(|s| output_path(s).unwrap()).collect();
            let (want_created, want_gone) = match mode {
                Mode::Build | Mode::InMemoryBuild => (outs.clone(), BTreeSet::new()),
                Mode::Clean => (BTreeSet::new(), outs.clone()),
                Mode::Verify => (BTreeSet::new(), BTreeSet::new()),
            };
            if created != want_created || gone != want_gone {
                viol("wrong-set-processed", format!("created {:?} removed {:?}; the statement prescribes created {:?} removed {:?}", created, gone, want_created, want_gone));
            } else if matches!(mode, Mode::Build | Mode::InMemoryBuild) {
                for s in set {
                    let o = output_path(s).unwrap();
                    if after.get(&o).map(|m| &m.node) != Some(&Node::File(spec.expected_output(s))) {
                        viol("wrong-output-content", format!("{o} does not hold the output of its own source"));
                    }
                }
            }
        }
    }
}

fn input_lists(max_len: usize) -> Vec<Vec<String>> {
    let mut v: Vec<Vec<String>> = SPELLINGS.iter().map(|s| vec![s.to_string()]).collect();
    if max_len >= 2 {
        for a in SPELLINGS {
            for b in SPELLINGS {
                v.push(vec![a.to_string(), b.to_string()]);
            }
        }
    }
    v
}

pub fn run_c11(tier: &str) -> i32 {
    let rep = Report::new("C11", tier);
    let thorough = rep.thorough();
    let mut specs: Vec<TreeSpec> = vec![];
    let quick_masks: [[u8; 3]; 8] = [[0, 0, 0], [7, 0, 0], [1, 2, 4], [7, 7, 7], [0, 7, 0], [0, 0, 7], [5, 2, 0], [2, 5, 3]];
    if thorough {
        for m in 0..512u32 {
            specs.push(TreeSpec { masks: [(m & 7) as u8, (m >> 3 & 7) as u8, (m >> 6 & 7) as u8], dotted: false, include_variant: false, dirlike: false, outdir: false });
        }
    } else {
        for m in quick_masks {
            specs.push(TreeSpec { masks: m, dotted: false, include_variant: false, dirlike: false, outdir: false });
        }
    }
    for m in quick_masks {
        specs.push(TreeSpec { masks: m, dotted: true, include_variant: false, dirlike: false, outdir: false });
    }
    for m in [[7, 7, 7], [1, 2, 0], [7, 2, 4]] {
        specs.push(TreeSpec { masks: m, dotted: false, include_variant: true, dirlike: false, outdir: false });
    }
    for m in [[0, 0, 0], [7, 7, 7], [1, 2, 4]] {
        specs.push(TreeSpec { masks: m, dotted: false, include_variant: false, dirlike: true, outdir: false });
    }
    let lists = input_lists(2);
    let lists1 = input_lists(1);
    rep.set("trees", json!(specs.len()));
    rep.set("input_lists", json!(lists.len()));
    rep.set("bounds", json!(format!("{} trees (3 directory levels x subsets of 3 source-name shapes, look-alikes in every directory, dotted-stem and include variants) x input lists of length <= 2 (other modes: 1) [{}] over 26 spellings x recursive on/off x build/needed/verify/clean x base absolute/relative", specs.len(), if thorough { 2 } else { 1 })));
    rep.assume("the reference set-of-sources function (harness/src/etree.rs: expected_set) is written from the property statement");
    rep.st(specs.len());
    sharded_dyn(&rep, par_threads(), |_k, _n, next, rep| {
        let env = Env { scratch: Scratch::new() };
        loop {
            let i = next();
            if i >= specs.len() {
                break;
            }
            if rep.over_cap() {
                rep.note_cap("wall-clock cap (trees are enumerated in mask order)");
                break;
            }
            let spec = &specs[i];
            for rec in [false, true] {
                for l in &lists {
                    check_case(rep, &env, spec, l, rec, &Mode::Build, false);
                    rep.tr(1);
                }
                for l in &lists1 {
                    check_case(rep, &env, spec, l, rec, &Mode::Build, true);
                    check_case(rep, &env, spec, l, rec, &Mode::InMemoryBuild, false);
                    check_case(rep, &env, spec, l, rec, &Mode::Clean, false);
                    check_case(rep, &env, spec, l, rec, &Mode::Verify, false);
                    rep.tr(4);
                }
                if thorough && (i % 8 == 7 || spec.dotted || spec.include_variant || spec.dirlike) {
                    for l in lists.iter().skip(SPELLINGS.len()) {
                        check_case(rep, &env, spec, l, rec, &Mode::Clean, false);
                        rep.tr(1);
                    }
                }
            }
            if i == 2 {
                rep.sample(json!({"tree": spec.sources(), "lookalikes_in_every_directory": LOOKALIKES, "inputs_tried": lists.len(), "example": {"inputs": ["sub"], "recursive": true, "expected": expected_set(spec, &["sub".to_string()], true, &Mode::Build).ok()}}));
            }
        }
    });
    // the production binary on three trees x single spellings and a few pairs x -r x four modes
    {
        let cli_specs = [
            TreeSpec { masks: [7, 7, 7], dotted: false, include_variant: false, dirlike: false, outdir: false },
            TreeSpec { masks: [7, 7, 7], dotted: false, include_variant: true, dirlike: false, outdir: false },
            TreeSpec { masks: [1, 2, 4], dotted: false, include_variant: false, dirlike: true, outdir: false },
        ];
        let mut cl: Vec<Vec<String>> = input_lists(1);
        for pair in [[".", "sub"], ["sub", "subx"], ["a.txt", "a.txt.txtpp"], ["sub/deep", "sub/deeper/"], ["missing.txt", "."]] {
            cl.push(pair.iter().map(|s| s.to_string()).collect());
        }
        let mut jobs = vec![];
        for (si, _) in cli_specs.iter().enumerate() {
            for (li, _) in cl.iter().enumerate() {
                for rec in [false, true] {
                    for mode in [Mode::Build, Mode::InMemoryBuild, Mode::Clean, Mode::Verify] {
                        jobs.push((si, li, rec, mode));
                    }
                }
            }
        }
        sharded_dyn(&rep, par_threads() * 2, |_k, _n, next, rep| {
            let env = Env { scratch: Scratch::new() };
            loop {
                let i = next();
                if i >= jobs.len() {
                    break;
                }
                let (si, li, rec, mode) = &jobs[i];
                cli_case(rep, &env, &cli_specs[*si], &cl[*li], *rec, mode);
            }
        });
    }
    // directories named like the output of a sibling source
    {
        let env = Env { scratch: Scratch::new() };
        for m in [[0u8, 0, 0], [3, 2, 0]] {
            let spec = TreeSpec { masks: m, dotted: false, include_variant: false, dirlike: false, outdir: true };
            for l in [vec!["n"], vec!["n/"], vec!["./n"], vec!["site.v3"], vec!["n", "site.v3"], vec!["site.v3/", "n/a.txt"], vec!["ABS:n"], vec!["sub/../site.v3"]] {
                let l: Vec<String> = l.into_iter().map(String::from).collect();
                for rec in [false, true] {
                    for mode in [Mode::Build, Mode::InMemoryBuild] {
                        for rel in [false, true] {
                            check_case(&rep, &env, &spec, &l, rec, &mode, rel);
                            rep.tr(1);
                            rep.add("cases_with_directories_named_like_an_output", 1);
                        }
                    }
                }
            }
        }
    }
    if rep.get("cases_expecting_error") == 0 || rep.get("cases_expecting_a_set") == 0 {
        rep.machinery("vacuous enumeration".into());
    }
    rep.finish()
}

pub fn replay(v: &Value) -> bool {
    let rep = Report::new("C11", "quick");
    let spec = TreeSpec::from_json(&v["tree"]);
    let inputs: Vec<String> = v["inputs"].as_array().unwrap().iter().map(|x| x.as_str().unwrap().to_string()).collect();
    let env = Env { scratch: Scratch::new() };
    if v["cli"].as_bool() == Some(true) {
        cli_case(&rep, &env, &spec, &inputs, v["recursive"].as_bool().unwrap_or(false), &crate::sched::mode_from(v["mode"].as_str().unwrap_or("Build")));
    } else {
        check_case(&rep, &env, &spec, &inputs, v["recursive"].as_bool().unwrap_or(false), &crate::sched::mode_from(v["mode"].as_str().unwrap_or("Build")), v["rel_base"].as_bool().unwrap_or(false));
    }
    for x in rep.violations.lock().unwrap().iter() {
        println!("  [{}] {}", x.signature, x.message);
    }
    rep.n_violations() > 0
}
