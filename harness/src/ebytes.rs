//! Engine E-bytes (C18): hostile byte strings in every role, hostile directive arguments, line lengths at
//! buffer boundaries and hostile option values, through the real `Txtpp::run` under the controller
//! (which sees worker panics and the hang they cause) and through the production binary.
#![allow(dead_code)]

use crate::ctl::*;
use crate::util::*;
use serde_json::{json, Value};
use std::path::PathBuf;
use txtpp::{Config, Mode, Verbosity};

pub const TOK: [&[u8]; 17] = [
    b"\x00", b"\xff", b"\xc3", b"\xa9", b"\xc3\xa9", b"\r", b"\n", b" ", b"\t", b"-", b"TXTPP#", b"run ", b"include ", b"tag ", b"temp ", b"write ", b"x",
];
pub const ROLES: [&str; 4] = ["source", "included-file", "existing-output", "existing-temp-target"];
pub const MODES: [Mode; 4] = [Mode::Build, Mode::InMemoryBuild, Mode::Verify, Mode::Clean];

fn tree_for(role: &str, bytes: &[u8]) -> Tree {
    let mut t = Tree::new();
    match role {
        "source" => {
            tfile(&mut t, "s.txt.txtpp", bytes);
        }
        "included-file" => {
            tfile(&mut t, "s.txt.txtpp", "a\n  -TXTPP#include inc.txt\n-TXTPP#tag T\n-TXTPP#include inc.txt\nx T y\n");
            tfile(&mut t, "inc.txt", bytes);
        }
        "existing-output" => {
            tfile(&mut t, "s.txt.txtpp", "a\n-TXTPP#temp t.out\n-b\n");
            tfile(&mut t, "s.txt", bytes);
            tfile(&mut t, "t.out", "b");
        }
        _ => {
            tfile(&mut t, "s.txt.txtpp", "a\n-TXTPP#temp t.out\n-b\n");
            tfile(&mut t, "s.txt", "a\n");
            tfile(&mut t, "t.out", bytes);
        }
    }
    t
}

struct Env {
    scratch: Scratch,
}

impl Env {
    fn base(&self) -> PathBuf {
        self.scratch.p("p")
    }
    fn setup(&self, t: &Tree) {
        let _ = std::fs::remove_dir_all(self.base());
        std::fs::create_dir_all(self.base()).unwrap();
        write_tree(&self.base(), t);
    }
    fn cfg(&self, mode: &Mode) -> Config {
        Config {
            base_dir: self.base(),
            shell_cmd: String::new(),
            inputs: vec![".".into()],
            recursive: false,
            num_threads: 4,
            mode: mode.clone(),
            verbosity: Verbosity::Quiet,
            trailing_newline: true,
        }
    }
}

fn rj(kind: &str, tree: &Tree, cfg: &Value) -> Value {
    json!({"engine": "E-bytes", "kind": kind, "tree": tree_json(tree), "config": cfg})
}

fn cfg_json(c: &Config) -> Value {
    json!({"inputs": c.inputs, "recursive": c.recursive, "threads": c.num_threads, "mode": format!("{:?}", c.mode), "shell": c.shell_cmd, "base_suffix": ""})
}

fn check_run(rep: &Report, what: &str, tree: &Tree, cfg: Config) {
    let cj = cfg_json(&cfg);
    let r = run_canonical(cfg);
    rep.tv(1);
    rep.tr(1);
    if !r.clean() {
        let sig = match &r.verdict {
            Verdict::Panic(_) => "coordinator-panic",
            Verdict::Hang => "hang-after-worker-panic",
            Verdict::Diverges => "diverges",
            _ => "worker-panic",
        };
        rep.violate(
            sig,
            format!("{what}: {} {} worker panics {:?}; panic messages {:?}", r.verdict.kind(), r.verdict.detail(), r.worker_panics, PANIC_LOG.lock().map(|l| l.iter().rev().take(2).cloned().collect::<Vec<_>>()).unwrap_or_default()),
            rj(what, tree, &cj),
        );
    }
}

/// number of sources of the "many named sources" case: more than 4 x 16 threads + 1
const MANY: usize = 70;

fn for_each_bytes(max_tok: usize, next: &dyn Fn() -> usize, stop: &dyn Fn() -> bool, f: &mut dyn FnMut(&[usize])) {
    crate::elines::for_each_seq(TOK.len(), max_tok, next, stop, f)
}

pub fn run_c18(tier: &str) -> i32 {
    let rep = Report::new("C18", tier);
    let thorough = rep.thorough();
    let max_tok = if thorough { 4 } else { 3 };
    rep.set("token_alphabet", json!(TOK.iter().map(|t| show(t)).collect::<Vec<_>>()));
    rep.set("bounds", json!(format!("all byte strings of <= {max_tok} tokens over 17 hostile tokens x 4 roles x 4 modes; directive arguments from a hostile menu; line lengths 8191/8192/8193/65537; command output of 65536/65537/300000 bytes on stdout / stderr / both (production binary); threads 0..16, shells, base directories; production binary on a core of cases x modes x threads x recursive")));
    rep.assume("special files (devices, FIFOs) as include targets are outside the domain (D1): /dev/zero never ends");
    rep.st(ROLES.len() * MODES.len());
    // phase 1: byte strings in every role and mode
    sharded_dyn(&rep, par_threads(), |_k, _n, next, rep| {
        let env = Env { scratch: Scratch::new() };
        let stop = || rep.over_cap();
        for_each_bytes(max_tok, next, &stop, &mut |seq| {
            let bytes: Vec<u8> = seq.iter().flat_map(|&i| TOK[i].iter().cloned()).collect();
            rep.add("byte_strings", 1);
            for role in ROLES {
                let t = tree_for(role, &bytes);
                for mode in &MODES {
                    env.setup(&t);
                    check_run(rep, &format!("{role}={:?} mode={:?}", show(&bytes), mode), &t, env.cfg(mode));
                }
            }
            if seq == [2, 6] {
                rep.sample(json!({"bytes": show(&bytes), "roles": ROLES, "modes": 4}));
            }
        });
        if rep.over_cap() {
            rep.note_cap("wall-clock cap in the byte-string enumeration");
        }
    });
    // phase 2: directive arguments, long lines, options
    let long300 = "n".repeat(300);
    let args: Vec<String> = vec!["".into(), ".".into(), "..".into(), "/".into(), "dir".into(), "missing".into(), "x.txtpp".into(), "a/b".into(), "\u{e9}".into(), long300, "dir/".into(), "s.txt".into(), "s.txt.txtpp".into()];
    let directives = ["include", "after", "temp", "tag", "run", "write", ""];
    let mut jobs: Vec<(String, Tree, Box<dyn Fn(&Env, &Mode) -> Config + Send + Sync>)> = vec![];
    for d in directives {
        for a in &args {
            for prefix in ["", "-", "\u{e9}-"] {
                let line = format!("{prefix}TXTPP#{d} {a}");
                let mut t = Tree::new();
                tfile(&mut t, "s.txt.txtpp", format!("top\n{line}\n{}  cont\n{}\nEND T\n", " ".repeat(prefix.len()), prefix));
                tfile(&mut t, "dir/keep", "k");
                jobs.push((format!("directive line {:?}", line), t, Box::new(|e: &Env, m: &Mode| e.cfg(m))));
            }
        }
    }
    for prefix in ["\u{e9}", "\u{e9}-", "\u{e9}\u{e9}", "-\u{20ac}", "\u{1f600}"] {
        for d in ["run", "write", "temp", ""] {
            for k in 0..=prefix.len() + 1 {
                for tail in ["", "x", "\u{e9}"] {
                    let mut t = Tree::new();
                    tfile(&mut t, "s.txt.txtpp", format!("{prefix}TXTPP#{d} a\n{}{tail}\nEND\n", " ".repeat(k)));
                    jobs.push((format!("prefix {prefix:?} directive {d:?} followed by {k} spaces + {tail:?}"), t, Box::new(|e: &Env, m: &Mode| e.cfg(m))));
                }
            }
        }
    }
    // two or three stored tags whose names overlap partially, and lines that contain the overlapped spelling
    let tag_names = ["ab", "bc", "ba", "cab", "b"];
    let tag_lines = crate::tags::lines_abm(4).into_iter().map(|l| l.replace('-', "c")).collect::<Vec<_>>();
    for n1 in tag_names {
        for n2 in tag_names {
            if n1 == n2 || n1.starts_with(n2) || n2.starts_with(n1) {
                continue;
            }
            for l in &tag_lines {
                let body = format!("-TXTPP#tag {n1}\n+TXTPP#write X\n-TXTPP#tag {n2}\n+TXTPP#write {n1}\n{l}\n{n1} {n2}\n");
                let mut t = Tree::new();
                tfile(&mut t, "s.txt.txtpp", body);
                jobs.push((format!("overlapping tag names {n1:?} and {n2:?}, line {l:?}"), t, Box::new(|e: &Env, m: &Mode| e.cfg(m))));
            }
        }
    }
    for n in [8191usize, 8192, 8193, 65537] {
        for shape in ["text", "directive-arg", "prefix", "cr-in-the-middle"] {
            let line = match shape {
                "text" => "y".repeat(n),
                "directive-arg" => format!("-TXTPP#write {}", "y".repeat(n)),
                "prefix" => format!("{}TXTPP#write w", "p".repeat(n)),
                _ => format!("{}\r{}", "y".repeat(n), "z".repeat(n)),
            };
            let mut t = Tree::new();
            tfile(&mut t, "s.txt.txtpp", format!("{line}\nnext\n"));
            jobs.push((format!("line of {n} bytes ({shape})"), t, Box::new(|e: &Env, m: &Mode| e.cfg(m))));
        }
    }
    let mut plain = Tree::new();
    tfile(&mut plain, "s.txt.txtpp", "a\n-TXTPP#run echo hi\n-TXTPP#temp t.out\n-b\n");
    tfile(&mut plain, "sub/u.txt.txtpp", "TXTPP#include ../s.txt\n");
    for threads in 0..=16usize {
        for rec in [false, true] {
            jobs.push((format!("threads={threads} recursive={rec}"), plain.clone(), Box::new(move |e: &Env, m: &Mode| Config { num_threads: threads, recursive: rec, ..e.cfg(m) })));
        }
    }
    for sh in ["", "   ", "no-such-shell-program -c", "sh", "sh -c -e", "/", "\u{e9}"] {
        jobs.push((format!("shell={sh:?}"), plain.clone(), Box::new(move |e: &Env, m: &Mode| Config { shell_cmd: sh.to_string(), ..e.cfg(m) })));
    }
    for b in ["missing-dir", "s.txt.txtpp", ""] {
        jobs.push((format!("base directory = <base>/{b}"), plain.clone(), Box::new(move |e: &Env, m: &Mode| Config { base_dir: e.base().join(b), ..e.cfg(m) })));
    }
    for inputs in [vec![], vec![""], vec!["/"], vec![".."], vec!["s.txt", "s.txt", "."], vec!["\u{e9}"], vec!["sub/../sub/u.txt"]] {
        let inputs: Vec<String> = inputs.into_iter().map(String::from).collect();
        jobs.push((format!("inputs={inputs:?}"), plain.clone(), Box::new(move |e: &Env, m: &Mode| Config { inputs: inputs.clone(), ..e.cfg(m) })));
    }
    rep.set("configuration_and_argument_cases", json!(jobs.len()));
    sharded_dyn(&rep, par_threads(), |_k, _n, next, rep| {
        let env = Env { scratch: Scratch::new() };
        loop {
            let i = next();
            if i >= jobs.len() {
                break;
            }
            let (what, tree, mk) = &jobs[i];
            for mode in &MODES {
                env.setup(tree);
                let cfg = mk(&env, mode);
                let threads0 = cfg.num_threads == 0;
                let cj = cfg_json(&cfg);
                let r = run_canonical(cfg);
                rep.tv(1);
                rep.tr(1);
                if !r.clean() {
                    let sig = if threads0 {
                        "zero-threads-panic"
                    } else {
                        match &r.verdict {
                            Verdict::Panic(_) => "coordinator-panic",
                            Verdict::Hang => "hang-after-worker-panic",
                            _ => "worker-panic",
                        }
                    };
                    rep.violate(sig, format!("{what} mode={:?}: {} {} worker panics {:?}", mode, r.verdict.kind(), r.verdict.detail(), r.worker_panics), rj(what, tree, &cj));
                }
            }
            if i == 3 {
                rep.sample(json!({"case": what, "modes": 4}));
            }
        }
    });
    // phase 3: the production binary (exit code 0/1 only, bounded time)
    let thread_menu: Vec<usize> = if thorough { (0..=16).collect() } else { vec![0, 1, 2, 4, 16] };
    let core: Vec<(String, Tree)> = {
        let mut v = vec![];
        for bytes in [&b"\xff"[..], b"\xc3", b"\r", b"\x00TXTPP#", b"\xc3\xa9-TXTPP#run x\n   y", b"-TXTPP#tag \n", b"TXTPP#include \n", b"-TXTPP#temp /\n"] {
            for role in ROLES {
                v.push((format!("{role}={:?}", show(bytes)), tree_for(role, bytes)));
            }
        }
        v.push(("plain".to_string(), plain.clone()));
        // commands whose output exceeds a pipe buffer (64 KiB), on stdout (success), on stderr (failure), on both
        for n in [65536usize, 65537, 300000] {
            for (what, cmd) in [
                ("stdout", format!("head -c {n} /dev/zero | tr '\\0' y")),
                ("stderr-then-fail", format!("head -c {n} /dev/zero | tr '\\0' y >&2; exit 1")),
                ("both", format!("head -c {n} /dev/zero | tr '\\0' y; head -c {n} /dev/zero | tr '\\0' z >&2")),
            ] {
                let mut t = Tree::new();
                tfile(&mut t, "s.txt.txtpp", format!("top\n-TXTPP#run {cmd}\nEND\n"));
                v.push((format!("command writing {n} bytes to {what}"), t));
            }
        }
        // one directive with very many continuation lines
        for d in ["temp t.out", "write w", ""] {
            let mut t = Tree::new();
            let body: String = std::iter::repeat("-x\n").take(60000).collect();
            tfile(&mut t, "s.txt.txtpp", format!("top\n-TXTPP#{d}\n{body}END\n"));
            v.push((format!("directive {d:?} with 60000 continuation lines"), t));
        }
        // many sources named one by one, the first one fails: its error arrives while the results of all the
        // others are still on their way (more results than any bounded queue of a few slots per thread holds)
        let mut many = Tree::new();
        tfile(&mut many, "f00.txt.txtpp", &b"\xff\n"[..]);
        for i in 1..MANY {
            tfile(&mut many, &format!("f{i:02}.txt.txtpp"), format!("file {i}\n"));
        }
        v.push(("many-named-sources-first-fails".to_string(), many));
        v
    };
    let mut cli_jobs = vec![];
    for (ci, _) in core.iter().enumerate() {
        for (mi, _) in MODES.iter().enumerate() {
            for &th in &thread_menu {
                for rec in [false, true] {
                    cli_jobs.push((ci, mi, th, rec, 0usize));
                }
            }
            // the progress output (normal and verbose), also with stderr closed: printing must never matter
            for verb in 1..=4usize {
                cli_jobs.push((ci, mi, 4, true, verb));
            }
        }
    }
    rep.set("production_binary_runs_planned", json!(cli_jobs.len()));
    sharded_dyn(&rep, par_threads() * 3, |_k, _n, next, rep| {
        let env = Env { scratch: Scratch::new() };
        loop {
            let i = next();
            if i >= cli_jobs.len() {
                break;
            }
            if rep.over_cap() {
                rep.note_cap("wall-clock cap in the production-binary pass");
                break;
            }
            let (ci, mi, th, rec, verb) = cli_jobs[i];
            env.setup(&core[ci].1);
            let ths = th.to_string();
            let mut args: Vec<&str> = match mi {
                0 => vec![],
                1 => vec!["-N"],
                2 => vec!["verify"],
                _ => vec!["clean"],
            };
            match verb {
                0 => args.push("-q"),
                2 | 4 => args.push("-v"),
                _ => {}
            }
            args.extend(["-j", &ths]);
            if rec {
                args.push("-r");
            }
            let many_inputs: Vec<String> = (0..MANY).map(|i| format!("f{i:02}.txt")).collect();
            if core[ci].0 == "many-named-sources-first-fails" {
                args.extend(many_inputs.iter().map(|s| s.as_str()));
            }
            let (code, to) = if verb >= 3 {
                // stderr closed: every write of the progress reporter fails
                let mut c = std::process::Command::new("/bin/sh");
                let cmdline = format!("exec {} {} 2>&-", production_cli().display(), args.join(" "));
                c.arg("-c").arg(cmdline).current_dir(env.base()).env_remove("TXTPP_FILE").stdin(std::process::Stdio::null()).stdout(std::process::Stdio::null());
                match status_with_timeout(&mut c, 20.0) {
                    (Some(st), _) => (st.code().unwrap_or(-1), false),
                    (None, t) => (-9, t),
                }
            } else {
                run_cli(&env.base(), &args, &[], 20.0)
            };
            rep.tv(1);
            rep.tr(1);
            if to || (code != 0 && code != 1) {
                rep.violate(
                    if th == 0 { "zero-threads-panic" } else if to { "cli-timeout" } else { "cli-abnormal-exit" },
                    format!("txtpp {:?} on {}: exit code {code}, timed out: {to}", args, core[ci].0),
                    json!({"engine": "E-bytes", "kind": "cli", "tree": tree_json(&core[ci].1), "args": args}),
                );
            }
        }
    });
    rep.finish()
}

pub fn replay(v: &Value) -> bool {
    let tree = tree_from_json(&v["tree"]);
    let env = Env { scratch: Scratch::new() };
    env.setup(&tree);
    if v["kind"].as_str() == Some("cli") {
        let args: Vec<String> = v["args"].as_array().unwrap().iter().map(|x| x.as_str().unwrap().to_string()).collect();
        let a: Vec<&str> = args.iter().map(|s| s.as_str()).collect();
        let (code, to) = run_cli(&env.base(), &a, &[], 20.0);
        println!("replay: txtpp {:?} -> exit {code} timeout {to}", a);
        return to || (code != 0 && code != 1);
    }
    let c = &v["config"];
    let cfg = Config {
        base_dir: env.base(),
        shell_cmd: c["shell"].as_str().unwrap_or("").to_string(),
        inputs: c["inputs"].as_array().map(|a| a.iter().map(|x| x.as_str().unwrap().to_string()).collect()).unwrap_or(vec![".".into()]),
        recursive: c["recursive"].as_bool().unwrap_or(false),
        num_threads: c["threads"].as_u64().unwrap_or(4) as usize,
        mode: crate::sched::mode_from(c["mode"].as_str().unwrap_or("Build")),
        verbosity: Verbosity::Quiet,
        trailing_newline: true,
    };
    let r = run_canonical(cfg);
    println!("replay: {} {} worker panics {:?}", r.verdict.kind(), r.verdict.detail(), r.worker_panics);
    println!("  panic log: {:?}", PANIC_LOG.lock().map(|l| l.clone()).unwrap_or_default());
    !r.clean()
}
