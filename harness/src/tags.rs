//! Engine U-tag (C14): explicit-state BFS over the reference tag store (an ordered map); every model
//! transition is replayed against the real `TagState` (rebuilt from the operation history, since it is not
//! `Clone`) and the resulting state is probed. Plus whole-file runs over a tag-rich line alphabet.
#![allow(dead_code)]

use crate::elines::*;
use crate::model::normalize;
use crate::util::*;
use serde_json::json;
use std::collections::{BTreeMap, BTreeSet, VecDeque};
use txtpp::verif::api::TagState;
use txtpp::Mode;

pub const NAMES: [&str; 7] = ["a", "b", "aa", "ab", "ba", "bb", "aba"];
pub const CONTENTS: [&str; 9] = ["", "X", "a", "ab", "p\nq", "p\r\nq\r\n", "\n", "\r\n", "p\r\nq\nr"];

#[derive(Clone, Debug, PartialEq, Eq, PartialOrd, Ord, Hash)]
pub struct RefStore {
    pub listening: Option<String>,
    pub stored: BTreeMap<String, String>,
}

#[derive(Clone, Debug, PartialEq, Eq)]
pub enum Op {
    Create(String),
    Store(String),
    Inject(String, &'static str),
}

#[derive(Clone, Debug, PartialEq, Eq)]
pub enum Ret {
    Unit(bool),   // create / store: ok?
    Text(String), // inject
}

impl RefStore {
    pub fn new() -> Self {
        RefStore { listening: None, stored: BTreeMap::new() }
    }
    /// reference semantics, written from the property statement
    pub fn apply(&mut self, op: &Op) -> Ret {
        match op {
            Op::Create(n) => {
                if self.listening.is_some() {
                    return Ret::Unit(false);
                }
                if self.stored.keys().any(|k| k.starts_with(n.as_str()) || n.starts_with(k.as_str())) {
                    return Ret::Unit(false);
                }
                self.listening = Some(n.clone());
                Ret::Unit(true)
            }
            Op::Store(c) => match self.listening.take() {
                Some(n) => {
                    self.stored.insert(n, c.clone());
                    Ret::Unit(true)
                }
                None => Ret::Unit(false),
            },
            Op::Inject(line, le) => {
                // first occurrence of each stored tag in the original line, leftmost first, non-overlapping
                let mut hits: Vec<(usize, String)> = self.stored.keys().filter_map(|k| line.find(k.as_str()).map(|i| (i, k.clone()))).collect();
                hits.sort();
                let mut out = String::new();
                let mut pos = 0;
                for (i, k) in hits {
                    if i < pos {
                        continue;
                    }
                    out.push_str(&line[pos..i]);
                    out.push_str(&normalize(&self.stored[&k], le));
                    pos = i + k.len();
                    self.stored.remove(&k);
                }
                out.push_str(&line[pos..]);
                Ret::Text(out)
            }
        }
    }
    pub fn has_tags(&self) -> bool {
        self.listening.is_some() || !self.stored.is_empty()
    }
    pub fn tags_in(&self, line: &str) -> usize {
        self.stored.keys().filter(|k| line.contains(k.as_str())).count()
    }
}

fn apply_real(t: &mut TagState, op: &Op) -> Ret {
    match op {
        Op::Create(n) => Ret::Unit(t.create(n).is_ok()),
        Op::Store(c) => Ret::Unit(t.try_store(c).is_ok()),
        Op::Inject(l, le) => Ret::Text(t.inject_tags(l, le)),
    }
}

fn rebuild(hist: &[Op]) -> TagState {
    let mut t = TagState::new();
    for op in hist {
        apply_real(&mut t, op);
    }
    t
}

/// keys as printed by Display: listening first, then the stored keys in iteration order
fn display_keys(t: &TagState) -> Vec<String> {
    let s = format!("{t}");
    if s.is_empty() {
        vec![]
    } else {
        s.split(" ,").map(|x| x.to_string()).collect()
    }
}

fn op_json(op: &Op) -> serde_json::Value {
    match op {
        Op::Create(n) => json!({"create": n}),
        Op::Store(c) => json!({"store": c}),
        Op::Inject(l, le) => json!({"inject": l, "le": le}),
    }
}

fn op_from(v: &serde_json::Value) -> Op {
    if let Some(n) = v["create"].as_str() {
        Op::Create(n.to_string())
    } else if let Some(c) = v["store"].as_str() {
        Op::Store(c.to_string())
    } else {
        Op::Inject(v["inject"].as_str().unwrap_or("").to_string(), if v["le"].as_str() == Some("\r\n") { "\r\n" } else { "\n" })
    }
}

fn rj(hist: &[Op], op: &Op) -> serde_json::Value {
    json!({"engine": "U-tag", "history": hist.iter().map(op_json).collect::<Vec<_>>(), "op": op_json(op)})
}

/// Replay one model transition on the implementation and compare return value and resulting state.
/// Returns the number of implementation executions.
fn check_transition(rep: &Report, hist: &[Op], s: &RefStore, op: &Op) -> usize {
    let mut want_state = s.clone();
    let want = want_state.apply(op);
    let mut execs = 0;
    // hash order: repeat until every iteration order of the store has been observed (only where it can matter)
    let m = s.stored.len();
    let sensitive = matches!(op, Op::Inject(l, _) if s.tags_in(l) >= 2);
    let orders_needed: usize = if sensitive { (1..=m).product() } else { 1 };
    let mut seen_orders: BTreeSet<Vec<String>> = BTreeSet::new();
    let mut tries = 0;
    if sensitive {
        rep.add("hash_order_sensitive_transitions", 1);
    }
    while seen_orders.len() < orders_needed && tries < 200 {
        tries += 1;
        let r = std::panic::catch_unwind(|| {
            let mut t = rebuild(hist);
            let order = display_keys(&t);
            let got = apply_real(&mut t, op);
            let after = display_keys(&t);
            let has = t.has_tags();
            (order, got, after, has)
        });
        execs += 1;
        let (order, got, after, has) = match r {
            Ok(x) => x,
            Err(_) => {
                rep.violate("panic", format!("TagState panicked: history {:?} op {:?}", hist, op), rj(hist, op));
                return execs;
            }
        };
        seen_orders.insert(order.iter().filter(|k| Some(*k) != s.listening.as_ref()).cloned().collect());
        if got != want {
            rep.violate("tag-result", format!("history {:?}, op {:?}: implementation returned {:?}, reference {:?} (store iteration order {:?})", hist, op, got, want, order), rj(hist, op));
            return execs;
        }
        // resulting state: names via Display, sorted
        let mut names: Vec<String> = after.clone();
        names.sort();
        let mut want_names: Vec<String> = want_state.stored.keys().cloned().collect();
        if let Some(l) = &want_state.listening {
            want_names.push(l.clone());
        }
        want_names.sort();
        if names != want_names || has != want_state.has_tags() {
            rep.violate("tag-state", format!("history {:?}, op {:?}: implementation now holds {:?}, reference {:?}", hist, op, names, want_names), rj(hist, op));
            return execs;
        }
        if want_state.listening.as_ref() != after.first().filter(|_| want_state.listening.is_some()) && want_state.listening.is_some() {
            rep.violate("tag-state", format!("history {:?}, op {:?}: listening tag differs ({:?} vs {:?})", hist, op, after.first(), want_state.listening), rj(hist, op));
            return execs;
        }
    }
    if sensitive {
        rep.max("max_store_orders_observed", seen_orders.len() as u64);
        if seen_orders.len() < orders_needed {
            rep.add("transitions_with_fewer_orders_observed_than_m_factorial", 1);
        }
    }
    // contents of the resulting state: probe each stored key on a fresh replay
    if !matches!(op, Op::Inject(..)) || want_state.stored.len() != s.stored.len() {
        for (k, v) in &want_state.stored {
            let got = std::panic::catch_unwind(|| {
                let mut t = rebuild(hist);
                apply_real(&mut t, op);
                t.inject_tags(k, "\n")
            });
            execs += 1;
            let wantv = normalize(v, "\n");
            if got.as_ref().ok() != Some(&wantv) {
                rep.violate("tag-content", format!("history {:?}, op {:?}: tag {k:?} now yields {:?}, reference {:?}", hist, op, got.ok(), wantv), rj(hist, op));
                return execs;
            }
        }
    }
    execs
}

pub fn lines_abm(max: usize) -> Vec<String> {
    let mut v = vec![String::new()];
    let mut cur = vec![String::new()];
    for _ in 0..max {
        let mut nxt = vec![];
        for c in &cur {
            for ch in ['a', 'b', '-'] {
                nxt.push(format!("{c}{ch}"));
            }
        }
        v.extend(nxt.iter().cloned());
        cur = nxt;
    }
    v
}

pub const TAG_SIGMA: [&str; 15] = [
    "-TXTPP#include empty.txt",
    "TXTPP#after nonl.txt",
    "-TXTPP#tag T",
    "-TXTPP#tag TU",
    "-TXTPP#tag U",
    "+TXTPP#write W",
    "+TXTPP#write T",
    "+TXTPP#temp t.out",
    "+TXTPP#",
    "-TXTPP#include nonl.txt",
    "x T y",
    "TU T",
    "T T",
    "U",
    "x",
];

pub fn run_c14(tier: &str) -> i32 {
    let rep = Report::new("C14", tier);
    let thorough = rep.thorough();
    let (depth, line_len, file_len) = if thorough { (9, 5, 5) } else { (7, 4, 4) };
    rep.set("names", json!(NAMES));
    rep.set("contents", json!(CONTENTS));
    rep.set("bounds", json!(format!("BFS over the reference store to depth {depth} (operations create x7 names, store x9 contents, inject x all lines of <= {line_len} chars over {{a,b,-}} x LF/CRLF); whole files of <= {file_len} lines over a 15-line tag alphabet")));
    rep.assume("hash iteration order is observed through Display, not controlled: each order-sensitive transition is repeated until all m! orders were seen (cap 200 tries)");
    // model BFS in the parent (pure, fast)
    let mut ops: Vec<Op> = vec![];
    for n in NAMES {
        ops.push(Op::Create(n.to_string()));
    }
    for c in CONTENTS {
        ops.push(Op::Store(c.to_string()));
    }
    let inj_lines = lines_abm(line_len);
    for l in &inj_lines {
        for le in ["\n", "\r\n"] {
            ops.push(Op::Inject(l.clone(), le));
        }
    }
    let mut seen: BTreeMap<RefStore, Vec<Op>> = BTreeMap::new();
    let mut order: Vec<RefStore> = vec![];
    let mut q = VecDeque::new();
    seen.insert(RefStore::new(), vec![]);
    order.push(RefStore::new());
    q.push_back(RefStore::new());
    while let Some(s) = q.pop_front() {
        let h = seen[&s].clone();
        if h.len() >= depth {
            continue;
        }
        for op in &ops {
            let mut s2 = s.clone();
            s2.apply(op);
            if !seen.contains_key(&s2) {
                let mut h2 = h.clone();
                h2.push(op.clone());
                seen.insert(s2.clone(), h2);
                order.push(s2.clone());
                q.push_back(s2);
            }
        }
    }
    rep.st(order.len());
    rep.set("model_states", json!(order.len()));
    rep.set("operations_per_state", json!(ops.len()));
    rep.set("max_stored_tags_in_a_state", json!(order.iter().map(|s| s.stored.len()).max().unwrap_or(0)));
    // conformance: every transition of every state, on the implementation
    sharded_dyn(&rep, par_threads(), |_k, _n, next, rep| loop {
        let i = next();
        if i >= order.len() {
            break;
        }
        if rep.over_cap() {
            rep.note_cap("wall-clock cap in the conformance pass (states are in BFS order)");
            break;
        }
        let s = &order[i];
        let h = &seen[s];
        for op in &ops {
            let e = check_transition(rep, h, s, op);
            rep.tv(e);
            rep.tr(1);
        }
        if i == 40 {
            rep.sample(json!({"state": {"listening": s.listening, "stored": s.stored}, "reached_by": h.iter().map(op_json).collect::<Vec<_>>(), "transitions_checked": ops.len()}));
        }
    });
    // whole files
    let mut help = Tree::new();
    tfile(&mut help, "nonl.txt", "p\nq");
    tfile(&mut help, "empty.txt", "");
    sharded_dyn(&rep, par_threads(), |_k, _n, next, rep| {
        let b = Bench::new(&help);
        let stop = || rep.over_cap();
        for_each_seq(TAG_SIGMA.len(), file_len, next, &stop, &mut |seq| {
            let lines: Vec<&str> = seq.iter().map(|&i| TAG_SIGMA[i]).collect();
            for crlf in [false, true] {
                let src = build_source(&lines, crlf, true);
                let m = b.model(&src, true);
                if matches!(&m, Err(e) if e.starts_with("out-of-domain")) {
                    continue;
                }
                let r = b.run(&src, Mode::Build, true, true);
                rep.tv(1);
                rep.tr(1);
                rep.add("whole_files", 1);
                compare_c01(rep, "whole file", &src, true, &m, &r);
                if seq.len() <= 3 {
                    // the tag rules are the same in the only-if-needed mode and in a final pass
                    let r2 = b.run(&src, Mode::InMemoryBuild, true, true);
                    compare_c01(rep, "whole file (in-memory build)", &src, true, &m, &r2);
                    let r3 = b.run(&src, Mode::Build, false, true);
                    compare_c01(rep, "whole file (final pass)", &src, true, &m, &r3);
                    rep.tv(2);
                    rep.tr(2);
                }
                // "The result is identical on every run": repeat files that hold several tags at once
                let ntags = seq.iter().filter(|&&i| (2..=4).contains(&i)).count();
                if ntags >= 2 && r.v == V::Ok {
                    for _ in 0..4 {
                        let r2 = b.run(&src, Mode::Build, true, true);
                        rep.tv(1);
                        rep.add("whole_file_repeats", 1);
                        if r2.out != r.out || r2.v != r.v {
                            rep.violate(
                                "run-to-run-difference",
                                format!("source {:?}: two runs gave {:?} and {:?}", show(&src), r.out.as_ref().map(|x| show(x)), r2.out.as_ref().map(|x| show(x))),
                                json!({"engine": "E-lines", "prop": "C14", "source_b64": b64(&src), "source": show(&src), "trailing_newline": true}),
                            );
                            break;
                        }
                    }
                }
            }
        });
        if rep.over_cap() {
            rep.note_cap("wall-clock cap in the whole-file pass");
        }
    });
    if rep.get("hash_order_sensitive_transitions") == 0 {
        rep.machinery("vacuous: no transition had two tags on one line".into());
    }
    rep.finish()
}

pub fn replay(v: &serde_json::Value) -> bool {
    let hist: Vec<Op> = v["history"].as_array().map(|a| a.iter().map(op_from).collect()).unwrap_or_default();
    let op = op_from(&v["op"]);
    let mut s = RefStore::new();
    for o in &hist {
        s.apply(o);
    }
    let rep = Report::new("C14", "quick");
    check_transition(&rep, &hist, &s, &op);
    for x in rep.violations.lock().unwrap().iter() {
        println!("  [{}] {}", x.signature, x.message);
    }
    rep.n_violations() > 0
}
