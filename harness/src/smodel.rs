//! An abstract model of the coordinator protocol (engine S, second half).
//!
//! The model is a pure state machine written from the description of the protocol in DESIGN.md section 1
//! (not a transcription of the loop): files are nodes, a task is "first pass of x", "final pass of x" or
//! "scan". It is bound to the code in `sched.rs`: EVERY schedule the explorer executes on the real
//! coordinator (<= 4 files) is replayed on the model with the same choices, and the sequence of task
//! begin/end events and the verdict must be identical. The model alone is then explored exhaustively
//! (explicit-state, all completion orders, state de-duplication) on ALL labelled digraphs with 5 files.
#![allow(dead_code)]

use crate::sched::{src_name, Graph};
use std::collections::{BTreeMap, BTreeSet, HashSet};

#[derive(Clone, PartialEq, Eq, Hash, PartialOrd, Ord, Debug)]
pub enum Task {
    First(usize),
    Final(usize),
    Scan,
}

impl Task {
    pub fn label(&self) -> String {
        match self {
            Task::First(x) => format!("pp:{}:1", src_name(*x)),
            Task::Final(x) => format!("pp:{}:2", src_name(*x)),
            Task::Scan => "scan:".to_string(),
        }
    }
}

#[derive(Clone, PartialEq, Eq, Hash, Debug)]
pub struct MState {
    pub seen: BTreeSet<usize>,
    pub total: usize,
    pub done: usize,
    pub out_count: BTreeMap<usize, usize>,
    pub in_edges: BTreeMap<usize, BTreeSet<usize>>,
    pub finished: BTreeSet<usize>,
    /// gated tasks (multiset, kept sorted by label)
    pub pending: Vec<Task>,
    /// how often each file completed (final result Ok)
    pub completed: Vec<u8>,
    pub first_passes: Vec<u8>,
    pub final_passes: Vec<u8>,
}

#[derive(Clone, Copy, PartialEq, Eq, Debug)]
pub enum MVerdict {
    Ok,
    Err,
    Hang,
}

pub struct Proto<'a> {
    pub g: &'a Graph,
}

impl<'a> Proto<'a> {
    fn spawn(&self, s: &mut MState, t: Task) {
        s.total += 1;
        s.pending.push(t);
        s.pending.sort_by_key(|t| t.label());
    }
    fn execute_file(&self, s: &mut MState, x: usize, first: bool) {
        if first {
            if !s.seen.insert(x) {
                return;
            }
            self.spawn(s, Task::First(x));
        } else {
            self.spawn(s, Task::Final(x));
        }
    }
    pub fn init(&self, roots: &[usize], scan: bool) -> MState {
        let n = self.g.n;
        let mut s = MState {
            seen: BTreeSet::new(),
            total: 0,
            done: 0,
            out_count: BTreeMap::new(),
            in_edges: BTreeMap::new(),
            finished: BTreeSet::new(),
            pending: vec![],
            completed: vec![0; n],
            first_passes: vec![0; n],
            final_passes: vec![0; n],
        };
        for &r in roots {
            self.execute_file(&mut s, r, true);
        }
        if scan {
            self.spawn(&mut s, Task::Scan);
        }
        s
    }
    fn file_done(&self, s: &mut MState, x: usize) {
        s.completed[x] += 1;
        s.finished.insert(x);
        if let Some(waiters) = s.in_edges.remove(&x) {
            for w in waiters {
                let c = s.out_count.get(&w).cloned().unwrap_or(0);
                if c <= 1 {
                    s.out_count.remove(&w);
                    self.execute_file(s, w, false);
                } else {
                    s.out_count.insert(w, c - 1);
                }
            }
        }
    }
    /// task `i` of the pending list completes and the coordinator handles its message
    pub fn step(&self, s: &mut MState, i: usize) {
        let t = s.pending.remove(i);
        s.done += 1;
        match t {
            Task::Scan => {
                for x in 0..self.g.n {
                    self.execute_file(s, x, true);
                }
            }
            Task::First(x) => {
                s.first_passes[x] += 1;
                let deps = self.g.deps(x);
                if deps.is_empty() {
                    self.file_done(s, x);
                } else {
                    // wait for every dependency that has not finished yet
                    let mut added = false;
                    s.out_count.entry(x).or_insert(0);
                    for &d in &deps {
                        if s.finished.contains(&d) {
                            continue;
                        }
                        if s.in_edges.entry(d).or_default().insert(x) {
                            *s.out_count.get_mut(&x).unwrap() += 1;
                        }
                        added = true;
                    }
                    if added {
                        for &d in &deps {
                            self.execute_file(s, d, true);
                        }
                    } else {
                        self.execute_file(s, x, false);
                    }
                }
            }
            Task::Final(x) => {
                s.final_passes[x] += 1;
                self.file_done(s, x);
            }
        }
    }
    pub fn terminal(&self, s: &MState) -> Option<MVerdict> {
        if !s.pending.is_empty() {
            return None;
        }
        if s.done != s.total {
            return Some(MVerdict::Hang);
        }
        if s.in_edges.values().any(|v| !v.is_empty()) {
            Some(MVerdict::Err)
        } else {
            Some(MVerdict::Ok)
        }
    }
}

/// Replay one implementation schedule on the model. Returns (B/E event labels, verdict).
pub fn replay_on_model(g: &Graph, roots: &[usize], scan: bool, choices: &[usize]) -> Result<(Vec<String>, MVerdict), String> {
    let p = Proto { g };
    let mut s = p.init(roots, scan);
    let mut ev = vec![];
    let mut k = 0;
    loop {
        if let Some(v) = p.terminal(&s) {
            if k != choices.len() {
                return Err(format!("model finished after {k} of {} choices", choices.len()));
            }
            return Ok((ev, v));
        }
        let i = if s.pending.len() == 1 {
            0
        } else {
            let c = *choices.get(k).ok_or_else(|| format!("model needs more than {} choices", choices.len()))?;
            k += 1;
            if c >= s.pending.len() {
                return Err(format!("choice {c} but the model has {} gated tasks", s.pending.len()));
            }
            c
        };
        let l = s.pending[i].label();
        ev.push(format!("B {l}"));
        ev.push(format!("E {l}"));
        p.step(&mut s, i);
    }
}

pub struct ModelStats {
    pub states: usize,
    pub transitions: usize,
    pub terminals: usize,
}

/// Exhaustive exploration of the model for one graph and one selection; returns a violation description if any.
pub fn check_model(g: &Graph, roots: &[usize], scan: bool, stats: &mut ModelStats) -> Option<String> {
    let p = Proto { g };
    let required: BTreeSet<usize> = if scan { (0..g.n).collect() } else { g.reach(roots) };
    let cyc = g.cyc();
    let expect_err = required.iter().any(|x| cyc.contains(x));
    let mut seen: HashSet<MState> = HashSet::new();
    let mut stack = vec![p.init(roots, scan)];
    while let Some(s) = stack.pop() {
        if !seen.insert(s.clone()) {
            continue;
        }
        stats.states += 1;
        if s.total > 64 {
            return Some("unbounded task creation".into());
        }
        for x in 0..g.n {
            if s.first_passes[x] > 1 || s.final_passes[x] > 1 || s.completed[x] > 1 {
                return Some(format!("file {x} processed twice: first passes {}, final passes {}, completions {}", s.first_passes[x], s.final_passes[x], s.completed[x]));
            }
        }
        // a final pass may only be gated when all its dependencies are complete
        for t in &s.pending {
            if let Task::Final(x) = t {
                if g.deps(*x).iter().any(|d| s.completed[*d] == 0) {
                    return Some(format!("final pass of {x} released before its dependencies completed"));
                }
            }
        }
        match p.terminal(&s) {
            Some(v) => {
                stats.terminals += 1;
                if v == MVerdict::Hang {
                    return Some("coordinator waits forever (no task left, done != total)".into());
                }
                if (v == MVerdict::Err) != expect_err {
                    return Some(format!("verdict {:?} but a cycle is {}reachable", v, if expect_err { "" } else { "not " }));
                }
                for &x in &required {
                    if !cyc.contains(&x) && s.completed[x] != 1 {
                        return Some(format!("file {x} cannot reach a cycle but completed {} times (verdict {:?})", s.completed[x], v));
                    }
                }
            }
            None => {
                for i in 0..s.pending.len() {
                    if i > 0 && s.pending[i] == s.pending[i - 1] {
                        continue;
                    }
                    let mut s2 = s.clone();
                    p.step(&mut s2, i);
                    stats.transitions += 1;
                    stack.push(s2);
                }
            }
        }
    }
    None
}
