//! C04: fault kind x position of the faulty file x mode x ALL task completion orders (engine S),
//! plus write limits at every byte count (RLIMIT_FSIZE) on the production binary.
#![allow(dead_code)]

use crate::ctl::*;
use crate::util::*;
use serde_json::{json, Value};
use std::collections::BTreeSet;
use txtpp::{Config, Mode, Verbosity};

/// fault kinds combined with the vanishing-directory companion in the quick tier (all kinds in thorough)
pub const VANISH_QUICK: [&str; 3] = ["command-exit-3", "missing-include", "write-limit-on-output"];
pub const FILES: [&str; 5] = ["a", "b", "c", "d", "e"];
pub const POS: [(&str, usize); 5] = [("root", 0), ("middle", 1), ("leaf", 2), ("sibling", 3), ("sibling-with-empty-output", 4)];
pub const KINDS: [&str; 16] = [
    "temp-target-is-a-directory",
    "include-invalid-utf8",
    "command-killed-by-signal",
    "write-limit-on-output", "write-limit-on-temp",
    "tag-misuse", "command-exit-3", "missing-include", "include-a-directory", "source-invalid-utf8", "output-path-is-a-directory", "output-is-dev-full",
    "temp-in-missing-directory", "temp-parent-is-a-file", "verify-output-tampered", "verify-output-deleted",
];

fn source(i: usize) -> String {
    let x = FILES[i];
    if i == 4 {
        // nothing but an empty directive used as a comment: the output is empty
        return "#TXTPP# this file produces an empty output\n".to_string();
    }
    let dep = match i {
        0 => "TXTPP#include b.txt\n",
        1 => "TXTPP#include c.txt\n",
        _ => "",
    };
    format!("{x}-head\n{dep}-TXTPP#temp {x}.tmp\n-{x} body\n{x}-tail\n")
}

fn oracle(i: usize) -> String {
    let x = FILES[i];
    if i == 4 {
        return String::new();
    }
    let dep = match i {
        0 => oracle(1),
        1 => oracle(2),
        _ => String::new(),
    };
    format!("{x}-head\n{dep}{x}-tail\n")
}

fn base_tree(built: bool) -> Tree {
    let mut t = Tree::new();
    for i in 0..5 {
        tfile(&mut t, &format!("{}.txt.txtpp", FILES[i]), source(i));
        if built {
            tfile(&mut t, &format!("{}.txt", FILES[i]), oracle(i));
            if i < 4 {
                tfile(&mut t, &format!("{}.tmp", FILES[i]), format!("{} body", FILES[i]));
            }
        }
    }
    tfile(&mut t, "plain.txt", "plain\n");
    tfile(&mut t, "adir/keep", "k\n");
    t
}

/// RLIMIT_FSIZE for the fault kinds that need one (in-process, inside the forked worker)
pub fn limit_for(kind: &str) -> Option<u64> {
    if kind.starts_with("write-limit") {
        Some(150)
    } else {
        None
    }
}

fn with_fsize_limit<T>(n: Option<u64>, f: impl FnOnce() -> T) -> T {
    let mut old = libc::rlimit { rlim_cur: 0, rlim_max: 0 };
    if let Some(n) = n {
        unsafe {
            libc::getrlimit(libc::RLIMIT_FSIZE, &mut old);
            libc::signal(libc::SIGXFSZ, libc::SIG_IGN);
            let lim = libc::rlimit { rlim_cur: n, rlim_max: old.rlim_max };
            libc::setrlimit(libc::RLIMIT_FSIZE, &lim);
        }
    }
    let r = f();
    if n.is_some() {
        unsafe {
            libc::setrlimit(libc::RLIMIT_FSIZE, &old);
        }
    }
    r
}

/// the tree with one fault injected; None if the fault does not apply to the mode
pub fn faulty_tree(kind: &str, pos: usize, mode: &Mode) -> Option<Tree> {
    let built = *mode == Mode::Verify;
    let mut t = base_tree(built);
    let x = FILES[pos];
    let srcp = format!("{x}.txt.txtpp");
    let outp = format!("{x}.txt");
    let append = |t: &mut Tree, extra: &[u8]| {
        if let Some(Node::File(b)) = t.get_mut(&srcp) {
            b.extend_from_slice(extra);
        }
    };
    match kind {
        "tag-misuse" => append(&mut t, b"-TXTPP#tag T\n"),
        "command-exit-3" => append(&mut t, b"-TXTPP#run exit 3\n"),
        "command-killed-by-signal" => append(&mut t, b"-TXTPP#run printf partial; kill -9 $$\n"),
        "missing-include" => append(&mut t, b"TXTPP#include nonexistent.txt\n"),
        "include-a-directory" => append(&mut t, b"TXTPP#include adir\n"),
        "include-invalid-utf8" => {
            tfile(&mut t, "latin1.dat", &b"caf\xe9 \xff\xfe\n"[..]);
            append(&mut t, b"TXTPP#include latin1.dat\n");
        }
        "source-invalid-utf8" => append(&mut t, b"\xff\n"),
        "output-path-is-a-directory" => {
            t.remove(&outp);
            tfile(&mut t, &format!("{outp}/occupied"), "x");
        }
        "write-limit-on-output" => {
            // the faulty file's output is the only generated file larger than the limit
            if *mode == Mode::Verify {
                return None;
            }
            append(&mut t, format!("{}\n", "L".repeat(200)).as_bytes());
        }
        "write-limit-on-temp" => {
            if *mode == Mode::Verify {
                t.remove(&format!("{x}.tmp")); // verify rewrites a missing temp target
            }
            append(&mut t, format!("-TXTPP#temp {x}.big\n-{}\n", "L".repeat(200)).as_bytes());
        }
        "output-is-dev-full" => {
            // only where no other file includes this output: a build that wrongly goes on would read /dev/full for ever
            if pos == 1 || pos == 2 || pos == 4 {
                return None; // (an empty output writes no byte: nothing can fail)
            }
            if *mode != Mode::Build {
                return None; // other modes read the existing file first: /dev/full never ends (outside D1)
            }
            t.insert(outp.clone(), Node::Link("/dev/full".into()));
        }
        "temp-target-is-a-directory" => append(&mut t, b"-TXTPP#temp adir\n-body\n"),
        "temp-in-missing-directory" => append(&mut t, b"-TXTPP#temp nodir/x.tmp\n-body\n"),
        "temp-parent-is-a-file" => append(&mut t, b"-TXTPP#temp plain.txt/x.tmp\n-body\n"),
        "verify-output-tampered" => {
            if *mode != Mode::Verify {
                return None;
            }
            tfile(&mut t, &outp, oracle(pos) + "tampered");
        }
        "verify-output-deleted" => {
            if *mode != Mode::Verify {
                return None;
            }
            t.remove(&outp);
        }
        _ => return None,
    }
    Some(t)
}

thread_local! {
    /// pool size of the runs started from this worker (8 = never saturated for 4 files; 1 and 2 = saturated)
    static THREADS: std::cell::Cell<usize> = const { std::cell::Cell::new(8) };
    /// recursive scan (the "vanishing directory" companion event needs a sub-directory to be scanned)
    static RECURSIVE: std::cell::Cell<bool> = const { std::cell::Cell::new(false) };
}

/// Companion event (fault sequences): besides the fault, an unrelated file `v` removes a source-free
/// sub-directory that the recursive scan has scheduled; its scan then fails or not, depending on the order.
/// The faulty file (a or b of the chain a -> b) still fails in every order, so the run must report failure.
/// The project is cut down to a -> b (c.txt becomes a plain file) plus v, so that every completion order of
/// the two scans and the file tasks can be explored.
pub fn with_companion(mut t: Tree, companion: &str, kind: &str) -> Tree {
    if companion == "vanish" {
        for f in ["c.txt.txtpp", "d.txt.txtpp", "e.txt.txtpp", "d.txt", "e.txt", "c.tmp", "d.tmp", "e.tmp"] {
            t.remove(f);
        }
        tfile(&mut t, "c.txt", oracle(2));
        if kind != "include-a-directory" && kind != "temp-target-is-a-directory" {
            t.remove("adir/keep");
            t.remove("adir");
        }
        tfile(&mut t, "scratch/keep", "k\n");
        tfile(&mut t, "v.txt.txtpp", "-TXTPP#run rm -rf scratch\nv\n");
    }
    t
}

struct Env {
    scratch: Scratch,
}

impl Env {
    fn base(&self) -> std::path::PathBuf {
        self.scratch.p("p")
    }
    fn setup(&self, t: &Tree) {
        let _ = std::fs::remove_dir_all(self.base());
        std::fs::create_dir_all(self.base()).unwrap();
        write_tree(&self.base(), t);
    }
    fn cfg(&self, mode: &Mode, inputs: &[&str]) -> Config {
        let threads = THREADS.with(|t| t.get());
        Config {
            base_dir: self.base(),
            shell_cmd: String::new(),
            inputs: inputs.iter().map(|s| s.to_string()).collect(),
            recursive: RECURSIVE.with(|r| r.get()),
            num_threads: if threads == 8 { 9 } else { threads },
            mode: mode.clone(),
            verbosity: Verbosity::Quiet,
            trailing_newline: true,
        }
    }
}

fn explore_tree(env: &Env, t: &Tree, mode: &Mode, inputs: &[&str], limit: Option<u64>, mut f: impl FnMut(&RunResult)) -> Result<(usize, BTreeSet<Vec<usize>>), String> {
    let mut stack: Vec<Vec<usize>> = vec![vec![]];
    let mut runs = 0;
    let mut nodes = BTreeSet::new();
    while let Some(prefix) = stack.pop() {
        env.setup(t);
        let r = with_fsize_limit(limit, || run_controlled(env.cfg(mode, inputs), &CtlOpts { prefix: prefix.clone(), explore: Explore::Reduced, max_tasks: 64 }));
        runs += 1;
        if let Some(m) = &r.replay_misfit {
            return Err(format!("replay divergence under prefix {prefix:?}: {m}"));
        }
        let ch = r.choices();
        for k in 0..=ch.len() {
            nodes.insert(ch[..k].to_vec());
        }
        for i in (prefix.len()..r.decisions.len()).rev() {
            for alt in (1..r.decisions[i].enabled.len()).rev() {
                let mut p = ch[..i].to_vec();
                p.push(alt);
                stack.push(p);
            }
        }
        f(&r);
        if runs > 100_000 {
            return Err("schedule cap".into());
        }
    }
    Ok((runs, nodes))
}


fn limit_case(rep: &Report, env: &Env, limit_exec: &std::path::Path, maxsize: usize, n: usize, j: &str, needed: bool) -> i32 {
    env.setup(&base_tree(false));
    let mut c = std::process::Command::new(limit_exec);
    c.arg(n.to_string()).arg(production_cli()).current_dir(env.base()).env_remove("TXTPP_FILE").stdout(std::process::Stdio::null()).stderr(std::process::Stdio::null());
    if needed {
        c.arg("-N");
    }
    c.args(["-q", "-j", j]);
    let (st, timed_out) = status_with_timeout(&mut c, 40.0);
    rep.tv(1);
    rep.tr(1);
    if timed_out {
        rep.violate(
            "hang-under-write-limit",
            format!("write limit {n} bytes, -j{j}{}: txtpp did not end within 40 s", if needed { " --needed" } else { "" }),
            json!({"engine": "X", "kind": "rlimit", "n": n, "j": j, "needed": needed}),
        );
        return -9;
    }
    let code = st.and_then(|s| s.code()).unwrap_or(-1);
    let expect_ok = n >= maxsize;
    let mut complete = true;
    for jx in 0..5 {
        if std::fs::read(env.base().join(format!("{}.txt", FILES[jx]))).ok().as_deref() != Some(oracle(jx).as_bytes()) {
            complete = false;
        }
    }
    if (code == 0) != expect_ok || (code == 0 && !complete) || (code != 0 && code != 1) {
        rep.violate(
            if code == 0 { "false-success-under-write-limit" } else { "write-limit-exit-code" },
            format!("write limit {n} bytes (largest generated file {maxsize}), -j{j}{}: exit {code}, all outputs complete: {complete}", if needed { " --needed" } else { "" }),
            json!({"engine": "X", "kind": "rlimit", "n": n, "j": j, "needed": needed}),
        );
    }
    code
}

/// Project whose outputs end with ONE chunk larger than a writer buffer (the output of an include, of a command,
/// a long last line): a write limit that falls inside such a chunk produces a short write, not an error.
fn big_tree() -> Tree {
    let mut t = Tree::new();
    let big: String = (0..400).map(|i| format!("{:04} {}\n", i, "b".repeat(44))).collect(); // 20000 bytes
    tfile(&mut t, "big.txt", big);
    tfile(&mut t, "inc.txt.txtpp", "header line\nTXTPP#include big.txt\n");
    tfile(&mut t, "cmd.txt.txtpp", "header line\n-TXTPP#run cat big.txt\n");
    tfile(&mut t, "line.txt.txtpp", format!("header line\n{}", "L".repeat(9000)));
    tfile(&mut t, "tmp.txt.txtpp", format!("-TXTPP#temp big.tmp\n-{}\nshort\n", "T".repeat(9000)));
    t
}
const BIG_OUTS: [&str; 5] = ["inc.txt", "cmd.txt", "line.txt", "tmp.txt", "big.tmp"];

fn big_limit_run(env: &Env, limit_exec: &std::path::Path, n: Option<usize>, j: &str, needed: bool, tn: bool) -> (Option<i32>, bool, Vec<Option<Vec<u8>>>) {
    env.setup(&big_tree());
    let mut c = match n {
        Some(n) => {
            let mut c = std::process::Command::new(limit_exec);
            c.arg(n.to_string()).arg(production_cli());
            c
        }
        None => std::process::Command::new(production_cli()),
    };
    c.current_dir(env.base()).env_remove("TXTPP_FILE").stdout(std::process::Stdio::null()).stderr(std::process::Stdio::null());
    if needed {
        c.arg("-N");
    }
    if !tn {
        c.arg("-n");
    }
    c.args(["-q", "-j", j]);
    let (st, timed_out) = status_with_timeout(&mut c, 40.0);
    let outs = BIG_OUTS.iter().map(|o| std::fs::read(env.base().join(o)).ok()).collect();
    (st.and_then(|s| s.code()), timed_out, outs)
}

/// one write limit on the big project; returns true if a violation was reported
fn big_limit_case(rep: &Report, env: &Env, limit_exec: &std::path::Path, reference: &[Option<Vec<u8>>], n: usize, j: &str, needed: bool, tn: bool) -> bool {
    let (code, timed_out, outs) = big_limit_run(env, limit_exec, Some(n), j, needed, tn);
    rep.tv(1);
    rep.tr(1);
    let rj = json!({"engine": "X", "kind": "rlimit-big", "n": n, "j": j, "needed": needed, "tn": tn});
    let desc = format!("write limit {n} bytes on the project with >8 KiB chunks, -j{j}{}{}", if needed { " --needed" } else { "" }, if tn { "" } else { " -n" });
    if timed_out {
        rep.violate("hang-under-write-limit", format!("{desc}: txtpp did not end within 40 s"), rj);
        return true;
    }
    let code = code.unwrap_or(-1);
    let maxsize = reference.iter().map(|o| o.as_ref().map(|b| b.len()).unwrap_or(0)).max().unwrap_or(0);
    let expect_ok = n >= maxsize;
    let incomplete: Vec<String> = BIG_OUTS.iter().zip(outs.iter().zip(reference.iter())).filter(|(_, (a, b))| a != b).map(|(o, (a, _))| format!("{o}: {} bytes", a.as_ref().map(|b| b.len() as i64).unwrap_or(-1))).collect();
    if (code == 0) != expect_ok || (code == 0 && !incomplete.is_empty()) || (code != 0 && code != 1) {
        rep.violate(
            if code == 0 { "false-success-under-write-limit" } else { "write-limit-exit-code" },
            format!("{desc} (largest generated file {maxsize}): exit {code}; files differing from the unlimited run: {incomplete:?}"),
            rj,
        );
        return true;
    }
    false
}

/// write limits on the big project: every multiple of 512 up to the largest file + 1024, and +-1 around every multiple of 4096
fn big_limits(maxsize: usize) -> Vec<usize> {
    let mut v: BTreeSet<usize> = (0..=(maxsize + 1024) / 512).map(|k| k * 512).collect();
    for k in 1..=(maxsize / 4096 + 1) {
        v.insert(k * 4096 - 1);
        v.insert(k * 4096 + 1);
    }
    for d in [maxsize.saturating_sub(1), maxsize, maxsize + 1, 1, 11, 12, 13] {
        v.insert(d);
    }
    v.into_iter().collect()
}

pub fn run_c04(tier: &str) -> i32 {
    let rep = Report::new("C04", tier);
    let thorough = rep.thorough();
    rep.set("fault_kinds", json!(KINDS));
    rep.set("bounds", json!("project a->b->c plus unrelated d; 16 fault kinds (incl. RLIMIT_FSIZE hit by one file's output / temp target, in-process) x 4 positions x the modes in which the kind is a fault x input selections {., root only, all by name} x ALL task completion orders; RLIMIT_FSIZE = every byte count from 0 to the largest generated file + 1 on the production binary (-j1, -j4; build and --needed)"));
    rep.assume("faults are real OS-level faults (no injection hook); permission faults cannot be produced as root; /dev/full is used as an output only in Build mode");
    let mut jobs = vec![];
    let sels: Vec<Vec<&str>> = if thorough { vec![vec!["."], vec!["a.txt", "d.txt", "e.txt"], vec!["e.txt", "d.txt", "c.txt", "b.txt", "a.txt"]] } else { vec![vec!["."], vec!["a.txt", "d.txt", "e.txt"]] };
    for kind in KINDS {
        for (pname, pos) in POS {
            for mode in [Mode::Build, Mode::InMemoryBuild, Mode::Verify, Mode::Clean] {
                if mode == Mode::Clean && kind != "output-path-is-a-directory" {
                    continue; // clean ignores directive errors by design; a path it cannot delete is a failure
                }
                for (si, sel) in sels.iter().enumerate() {
                    // clean does not follow dependencies: the faulty file must be named (or found by the scan)
                    if mode == Mode::Clean && !(sel.contains(&".") || sel.iter().any(|s| s.starts_with(FILES[pos]))) {
                        continue;
                    }
                    jobs.push((kind, pname, pos, mode.clone(), si, 8usize, ""));
                    if si == 0 && mode == Mode::Build {
                        // saturated pools: results queue up behind the failing one
                        jobs.push((kind, pname, pos, mode.clone(), si, 1, ""));
                        jobs.push((kind, pname, pos, mode.clone(), si, 2, ""));
                    }
                    // fault sequences: the fault plus a directory that vanishes while it waits to be scanned
                    if si == 0 && pos <= 1 && matches!(mode, Mode::Build | Mode::InMemoryBuild) && (thorough || VANISH_QUICK.contains(&kind)) && (thorough || mode == Mode::Build) {
                        jobs.push((kind, pname, pos, mode.clone(), si, 8, "vanish"));
                        if thorough {
                            jobs.push((kind, pname, pos, mode.clone(), si, 2, "vanish"));
                        }
                    }
                }
            }
        }
    }
    // baseline without fault
    for mode in [Mode::Build, Mode::InMemoryBuild, Mode::Verify] {
        jobs.push(("none", "-", 0, mode.clone(), 0, 8, ""));
        jobs.push(("none", "-", 0, mode, 0, 1, ""));
    }
    sharded_dyn(&rep, par_threads(), |_k, _n, next, rep| {
        let env = Env { scratch: Scratch::new() };
        loop {
            let i = next();
            if i >= jobs.len() {
                break;
            }
            if rep.over_cap() {
                rep.note_cap("wall-clock cap");
                break;
            }
            let (kind, pname, pos, mode, si, threads, companion) = &jobs[i];
            THREADS.with(|t| t.set(*threads));
            RECURSIVE.with(|r| r.set(!companion.is_empty()));
            let t = if *kind == "none" { Some(base_tree(*mode == Mode::Verify)) } else { faulty_tree(kind, *pos, mode) };
            let t = match t {
                Some(t) => with_companion(t, companion, kind),
                None => continue,
            };
            // an output path occupied by a directory changes what the *output name* means as an input
            // (it then names a directory to scan): such inputs are given by source name
            let sel_src: Vec<String> = sels[*si].iter().map(|s| if *kind == "output-path-is-a-directory" && *s != "." { format!("{s}.txtpp") } else { s.to_string() }).collect();
            let sel_now: Vec<&str> = sel_src.iter().map(|s| s.as_str()).collect();
            let desc = format!("fault={kind} in {} ({pname}) mode={:?} inputs={:?} threads={threads}{}", FILES[*pos], mode, sel_now, if companion.is_empty() { String::new() } else { format!(" companion={companion} -r") });
            let mut verdicts = BTreeSet::new();
            let res = explore_tree(&env, &t, mode, &sel_now, limit_for(kind), |r| {
                verdicts.insert(r.verdict.kind());
                let bad = if *kind == "none" { !r.verdict.is_ok() || !r.clean() } else { !r.verdict.is_err() || !r.clean() };
                if bad {
                    rep.violate(
                        if *kind == "none" { "baseline-failed" } else if r.verdict.is_ok() { "false-success" } else { "abnormal-end" },
                        format!("{desc} :: schedule {:?} :: verdict {} (worker panics {:?}) trace {:?}", r.choices(), r.verdict.kind(), r.worker_panics, r.trace),
                        json!({"engine": "X", "kind": kind, "pos": pos, "mode": format!("{:?}", mode), "inputs": sel_now, "schedule": r.choices(), "threads": threads, "companion": companion}),
                    );
                }
                if *kind == "none" && r.verdict.is_ok() && *mode != Mode::Verify {
                    for j in 0..5 {
                        let got = std::fs::read(env.base().join(format!("{}.txt", FILES[j]))).ok();
                        if got.as_deref() != Some(oracle(j).as_bytes()) {
                            rep.violate("baseline-output", format!("{desc}: {}.txt is {:?}", FILES[j], got.map(|b| show(&b))), json!({"engine": "X", "kind": kind, "pos": pos, "mode": format!("{:?}", mode), "inputs": sel_now, "schedule": r.choices(), "threads": threads}));
                        }
                    }
                }
            });
            match res {
                Ok((runs, nodes)) => {
                    rep.tv(runs);
                    rep.tr(runs);
                    rep.st(nodes.len());
                    rep.add("fault_cases", 1);
                    if !companion.is_empty() {
                        rep.add("fault_cases_with_vanishing_directory", 1);
                        rep.add("schedules_with_vanishing_directory", runs as u64);
                    }
                    rep.max("max_schedules_per_case", runs as u64);
                    if runs > 1 {
                        rep.add("fault_cases_with_several_schedules", 1);
                    }
                    if i % 41 == 0 {
                        rep.sample(json!({"case": desc, "schedules": runs, "verdicts": verdicts}));
                    }
                }
                Err(m) => rep.machinery(format!("{desc}: {m}")),
            }
        }
    });
    // write limit at every byte count
    let sizes: Vec<usize> = (0..4).map(|j| oracle(j).len()).chain((0..4).map(|j| format!("{} body", FILES[j]).len())).collect();
    let maxsize = *sizes.iter().max().unwrap();
    let limit_exec = std::env::current_exe().unwrap().parent().unwrap().join("limit-exec");
    let mut ljobs = vec![];
    for n in 0..=maxsize + 1 {
        for j in ["1", "4"] {
            for needed in [false, true] {
                ljobs.push((n, j, needed));
            }
        }
    }
    rep.set("write_limit_runs", json!(ljobs.len()));
    rep.set("largest_generated_file_bytes", json!(maxsize));
    sharded_dyn(&rep, par_threads() * 3, |_k, _n, next, rep| {
        let env = Env { scratch: Scratch::new() };
        loop {
            let i = next();
            if i >= ljobs.len() {
                break;
            }
            let (n, j, needed) = ljobs[i];
            let code = limit_case(rep, &env, &limit_exec, maxsize, n, j, needed);
            if n == 7 && j == "1" && !needed {
                rep.sample(json!({"write_limit_bytes": n, "exit": code, "expected": "non-zero"}));
            }
        }
    });
    // write limits inside one large chunk (short writes), trailing newline on and off
    let env0 = Env { scratch: Scratch::new() };
    let mut refs: std::collections::BTreeMap<(bool, bool), Vec<Option<Vec<u8>>>> = Default::default();
    for needed in [false, true] {
        for tn in [true, false] {
            let (code, _, outs) = big_limit_run(&env0, &limit_exec, None, "1", needed, tn);
            if code != Some(0) || outs.iter().any(|o| o.is_none()) {
                rep.machinery(format!("the big project does not build without a write limit (needed={needed} tn={tn}): exit {code:?}"));
            }
            refs.insert((needed, tn), outs);
        }
    }
    if refs[&(false, true)] != refs[&(true, true)] || refs[&(false, false)] != refs[&(true, false)] {
        rep.machinery("build and --needed write different outputs for the big project".into());
    }
    let bigmax = refs[&(false, true)].iter().map(|o| o.as_ref().map(|b| b.len()).unwrap_or(0)).max().unwrap_or(0);
    let mut bjobs = vec![];
    for n in big_limits(bigmax) {
        for j in if thorough { vec!["1", "4"] } else { vec!["1"] } {
            for needed in [false, true] {
                for tn in [true, false] {
                    bjobs.push((n, j, needed, tn));
                }
            }
        }
    }
    rep.set("write_limit_runs_large_chunks", json!(bjobs.len()));
    rep.set("large_chunk_project", json!("outputs ending with one chunk > 8 KiB: include of a 20000-byte file, command output of 20000 bytes, a 9000-byte last line, a 9000-byte temp target; limits = every multiple of 512 up to the largest file + 1024, +-1 around every multiple of 4096, trailing newline on/off, build and --needed"));
    sharded_dyn(&rep, par_threads() * 3, |_k, _n, next, rep| {
        let env = Env { scratch: Scratch::new() };
        loop {
            let i = next();
            if i >= bjobs.len() {
                break;
            }
            let (n, j, needed, tn) = bjobs[i];
            big_limit_case(rep, &env, &limit_exec, &refs[&(needed, tn)], n, j, needed, tn);
        }
    });
    rep.finish()
}

pub fn replay(v: &Value) -> bool {
    let env = Env { scratch: Scratch::new() };
    if v["kind"].as_str() == Some("rlimit-big") {
        let rep = Report::new("C04", "quick");
        let limit_exec = std::env::current_exe().unwrap().parent().unwrap().join("limit-exec");
        let j = v["j"].as_str().unwrap_or("1").to_string();
        let needed = v["needed"].as_bool().unwrap_or(false);
        let tn = v["tn"].as_bool().unwrap_or(true);
        let (_, _, reference) = big_limit_run(&env, &limit_exec, None, &j, needed, tn);
        let bad = big_limit_case(&rep, &env, &limit_exec, &reference, v["n"].as_u64().unwrap_or(0) as usize, &j, needed, tn);
        println!("replay: write limit {} on the large-chunk project: violation {bad}", v["n"]);
        return bad;
    }
    if v["kind"].as_str() == Some("rlimit") {
        let rep = Report::new("C04", "quick");
        let sizes: Vec<usize> = (0..4).map(|j| oracle(j).len()).chain((0..4).map(|j| format!("{} body", FILES[j]).len())).collect();
        let maxsize = *sizes.iter().max().unwrap();
        let limit_exec = std::env::current_exe().unwrap().parent().unwrap().join("limit-exec");
        let j = v["j"].as_str().unwrap_or("1").to_string();
        let code = limit_case(&rep, &env, &limit_exec, maxsize, v["n"].as_u64().unwrap_or(0) as usize, &j, v["needed"].as_bool().unwrap_or(false));
        println!("replay: write limit {} -j{}: exit {code}", v["n"], j);
        return rep.n_violations() > 0;
    }
    let kind = v["kind"].as_str().unwrap_or("none");
    let pos = v["pos"].as_u64().unwrap_or(0) as usize;
    let mode = crate::sched::mode_from(v["mode"].as_str().unwrap_or("Build"));
    let inputs: Vec<String> = v["inputs"].as_array().unwrap().iter().map(|x| x.as_str().unwrap().to_string()).collect();
    let inputs: Vec<&str> = inputs.iter().map(|s| s.as_str()).collect();
    let prefix: Vec<usize> = v["schedule"].as_array().map(|a| a.iter().map(|x| x.as_u64().unwrap() as usize).collect()).unwrap_or_default();
    let t = if kind == "none" { base_tree(mode == Mode::Verify) } else { faulty_tree(kind, pos, &mode).expect("fault applies") };
    THREADS.with(|t| t.set(v["threads"].as_u64().unwrap_or(8) as usize));
    let companion = v["companion"].as_str().unwrap_or("");
    RECURSIVE.with(|r| r.set(!companion.is_empty()));
    let t = with_companion(t, companion, kind);
    env.setup(&t);
    let r = with_fsize_limit(limit_for(kind), || run_controlled(env.cfg(&mode, &inputs), &CtlOpts { prefix, explore: Explore::Reduced, max_tasks: 64 }));
    println!("replay: fault={kind} pos={pos} mode={:?}: verdict {} trace {:?}", mode, r.verdict.kind(), r.trace);
    if kind == "none" {
        !r.verdict.is_ok()
    } else {
        !r.verdict.is_err() || !r.clean()
    }
}
