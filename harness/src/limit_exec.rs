//! limit-exec <bytes> <program> [args...]: run a program with RLIMIT_FSIZE = <bytes> and SIGXFSZ ignored,
//! so that writing past the limit fails with EFBIG instead of killing the process (C04).
use std::os::unix::process::CommandExt;

fn main() {
    let args: Vec<String> = std::env::args().skip(1).collect();
    if args.len() < 2 {
        eprintln!("usage: limit-exec <bytes> <program> [args...]");
        std::process::exit(2);
    }
    let n: u64 = args[0].parse().expect("byte count");
    unsafe {
        let lim = libc::rlimit { rlim_cur: n, rlim_max: n };
        if libc::setrlimit(libc::RLIMIT_FSIZE, &lim) != 0 {
            eprintln!("setrlimit failed");
            std::process::exit(2);
        }
        libc::signal(libc::SIGXFSZ, libc::SIG_IGN);
    }
    let e = std::process::Command::new(&args[1]).args(&args[2..]).exec();
    eprintln!("exec failed: {e}");
    std::process::exit(2);
}
