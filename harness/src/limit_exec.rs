fn main(){}
