//! Reference model M (DESIGN 4.2): a parse-then-render interpreter of the README semantics.
//! Deliberately structured unlike the implementation (no streaming loop, ordered tag store).
#![allow(dead_code)]

use std::collections::{BTreeMap, BTreeSet};

// ---------------------------------------------------------------- grammar (also the oracle of C15)

#[derive(Clone, Copy, PartialEq, Eq, Debug, PartialOrd, Ord, Hash)]
pub enum Kind {
    Empty,
    Include,
    After,
    Run,
    Temp,
    Tag,
    Write,
}

impl Kind {
    pub fn multi(self) -> bool {
        matches!(self, Kind::Empty | Kind::Run | Kind::Temp | Kind::Write)
    }
    pub fn name(self) -> &'static str {
        match self {
            Kind::Empty => "",
            Kind::Include => "include",
            Kind::After => "after",
            Kind::Run => "run",
            Kind::Temp => "temp",
            Kind::Tag => "tag",
            Kind::Write => "write",
        }
    }
}

#[derive(Clone, PartialEq, Eq, Debug)]
pub struct Head {
    pub ws: String,
    pub prefix: String,
    pub kind: Kind,
    pub arg: String,
}

const MARK: &str = "TXTPP#";

/// "A line starts a directive iff, after its leading whitespace, the first `TXTPP#` on the line is
/// immediately followed by one of the names and then a space or end of line."
pub fn classify(line: &str) -> Option<Head> {
    let body = line.trim_start();
    let ws = &line[..line.len() - body.len()];
    let at = body.find(MARK)?;
    let prefix = &body[..at];
    let rest = &body[at + MARK.len()..];
    for kind in [Kind::Include, Kind::After, Kind::Run, Kind::Temp, Kind::Tag, Kind::Write, Kind::Empty] {
        let name = kind.name();
        if let Some(after_name) = rest.strip_prefix(name) {
            if after_name.is_empty() {
                return Some(Head { ws: ws.into(), prefix: prefix.into(), kind, arg: String::new() });
            }
            if let Some(arg) = after_name.strip_prefix(' ') {
                return Some(Head { ws: ws.into(), prefix: prefix.into(), kind, arg: arg.trim().to_string() });
            }
        }
    }
    None
}

/// "A following line continues a run/temp/write/empty directive iff it starts with the identical leading
/// whitespace followed by the same prefix, or by as many spaces as the prefix is long, or consists of the
/// prefix without its trailing whitespace; its remainder, right-trimmed, becomes the next argument."
/// `None`: not a continuation. `Some(None)`: outside the compared domain (Q4: non-ASCII prefix, spaces form).
pub fn continues(h: &Head, line: &str) -> Option<Option<String>> {
    if !h.kind.multi() {
        return None;
    }
    let rest = line.strip_prefix(h.ws.as_str())?;
    if rest == h.prefix.trim_end() {
        return Some(Some(String::new()));
    }
    if let Some(r) = rest.strip_prefix(h.prefix.as_str()) {
        return Some(Some(r.trim_end().to_string()));
    }
    let nchars = h.prefix.chars().count();
    let nbytes = h.prefix.len();
    if nchars != nbytes {
        // Q4: "the same number of space characters as the length of PREFIX1": bytes or characters?
        let lead = rest.len() - rest.trim_start_matches(' ').len();
        if lead >= nchars.min(nbytes) {
            return Some(None);
        }
        return None;
    }
    let spaces = " ".repeat(nbytes);
    if let Some(r) = rest.strip_prefix(spaces.as_str()) {
        return Some(Some(r.trim_end().to_string()));
    }
    None
}

// ---------------------------------------------------------------- files

/// Split file content into lines: `\n`-separated, one trailing `\r` removed, no phantom last line
pub fn split_lines(text: &str) -> Vec<&str> {
    let mut v: Vec<&str> = text.split('\n').collect();
    if v.last() == Some(&"") {
        v.pop();
    }
    v.into_iter().map(|l| l.strip_suffix('\r').unwrap_or(l)).collect()
}

/// line ending of the first line, `\n` if the file has none
pub fn first_le(bytes: &[u8]) -> &'static str {
    match bytes.iter().position(|&b| b == b'\n') {
        Some(i) if i > 0 && bytes[i - 1] == b'\r' => "\r\n",
        _ => "\n",
    }
}

pub fn normalize(text: &str, le: &str) -> String {
    let mut s = split_lines(text).join(le);
    if text.ends_with('\n') {
        s.push_str(le);
    }
    s
}

/// Lexically resolve `rel` against directory `dir` (both relative to the base). None if it escapes the base.
pub fn resolve(dir: &str, rel: &str) -> Option<String> {
    let mut parts: Vec<&str> = if rel.starts_with('/') { vec![] } else { dir.split('/').filter(|s| !s.is_empty()).collect() };
    if rel.starts_with('/') {
        return None; // absolute paths are handled by the caller
    }
    for c in rel.split('/') {
        match c {
            "" | "." => {}
            ".." => {
                parts.pop()?;
            }
            x => parts.push(x),
        }
    }
    Some(parts.join("/"))
}

pub fn dir_of(path: &str) -> String {
    match path.rfind('/') {
        Some(i) => path[..i].to_string(),
        None => String::new(),
    }
}

pub fn file_name(path: &str) -> &str {
    path.rsplit('/').next().unwrap_or(path)
}

/// foo.ext.txtpp -> foo.ext ; foo.txtpp.ext -> foo.ext ; foo.txtpp -> foo ; anything else: not a source
pub fn output_name(name: &str) -> Option<String> {
    if let Some(stem) = name.strip_suffix(".txtpp") {
        if !stem.is_empty() && !stem.ends_with('.') {
            return Some(stem.to_string());
        }
        return None;
    }
    let dot = name.rfind('.')?;
    let (head, ext) = (&name[..dot], &name[dot + 1..]);
    if ext.is_empty() {
        return None;
    }
    let stem = head.strip_suffix(".txtpp")?;
    if stem.is_empty() {
        return None;
    }
    Some(format!("{stem}.{ext}"))
}

pub fn is_source_name(name: &str) -> bool {
    output_name(name).is_some()
}

pub fn output_path(src: &str) -> Option<String> {
    let d = dir_of(src);
    let o = output_name(file_name(src))?;
    Some(if d.is_empty() { o } else { format!("{d}/{o}") })
}

// ---------------------------------------------------------------- the interpreter

#[derive(Clone, Debug, Default)]
pub struct MTree {
    pub files: BTreeMap<String, Vec<u8>>,
    pub dirs: BTreeSet<String>,
}

impl MTree {
    pub fn from_tree(t: &crate::util::Tree) -> MTree {
        let mut m = MTree::default();
        for (k, v) in t {
            match v {
                crate::util::Node::File(b) => {
                    m.files.insert(k.clone(), b.clone());
                }
                crate::util::Node::Dir => {
                    m.dirs.insert(k.clone());
                }
                crate::util::Node::Link(_) => {}
            }
            let mut d = dir_of(k);
            while !d.is_empty() {
                m.dirs.insert(d.clone());
                d = dir_of(&d);
            }
        }
        m
    }
    pub fn is_dir(&self, p: &str) -> bool {
        p.is_empty() || self.dirs.contains(p)
    }
    /// the source that produces `p`, if any (p.txtpp first, then stem.txtpp.ext)
    pub fn source_of(&self, p: &str) -> Option<String> {
        let name = file_name(p);
        if is_source_name(name) {
            return None;
        }
        let c1 = format!("{p}.txtpp");
        if self.files.contains_key(&c1) {
            return Some(c1);
        }
        if let Some(dot) = name.rfind('.') {
            if dot > 0 {
                let d = dir_of(p);
                let n2 = format!("{}.txtpp.{}", &name[..dot], &name[dot + 1..]);
                let c2 = if d.is_empty() { n2 } else { format!("{d}/{n2}") };
                if self.files.contains_key(&c2) {
                    return Some(c2);
                }
            }
        }
        None
    }
}

#[derive(Clone, Debug)]
pub struct MFile {
    /// acceptable outputs (more than one only for the listed ambiguities)
    pub outs: Vec<Vec<u8>>,
    /// temp targets written by this source, in base-relative paths
    pub temps: BTreeMap<String, Vec<u8>>,
    /// abstract (state, symbol) steps visited while evaluating — coverage only
    pub steps: Vec<(u16, u8)>,
    /// ordinary lines after tag substitution, in order (C16)
    pub text_lines: Vec<String>,
    /// last item is an ordinary text line (C13)
    pub ends_in_text: bool,
    pub le: &'static str,
    pub used_tags: bool,
}

pub type CmdFn<'a> = &'a dyn Fn(&str, &str, &dyn Fn(&str) -> Option<Vec<u8>>) -> Result<String, String>;

pub struct Model<'a> {
    pub tree: &'a MTree,
    pub trailing_newline: bool,
    pub cmd: CmdFn<'a>,
    memo: BTreeMap<String, Result<MFile, String>>,
    stack: Vec<String>,
    /// files written by temp directives so far (visible to later includes)
    overlay: BTreeMap<String, Vec<u8>>,
}

enum Item {
    Text(String),
    Dir { head: Head, args: Vec<String>, eof: bool },
}

enum Chunk {
    Text(String),
    Dir(String, bool), // rendered text, ended by EOF
}

impl<'a> Model<'a> {
    pub fn new(tree: &'a MTree, trailing_newline: bool, cmd: CmdFn<'a>) -> Self {
        Model { tree, trailing_newline, cmd, memo: BTreeMap::new(), stack: vec![], overlay: BTreeMap::new() }
    }

    fn read(&self, p: &str) -> Option<Vec<u8>> {
        self.overlay.get(p).or_else(|| self.tree.files.get(p)).cloned()
    }

    pub fn all_temps(&self) -> &BTreeMap<String, Vec<u8>> {
        &self.overlay
    }

    /// Evaluate one source (and, recursively, the sources it depends on)
    pub fn eval(&mut self, src: &str) -> Result<MFile, String> {
        if let Some(r) = self.memo.get(src) {
            return r.clone();
        }
        if self.stack.iter().any(|s| s == src) {
            return Err(format!("dependency cycle through {src}"));
        }
        self.stack.push(src.to_string());
        let r = self.eval_inner(src);
        self.stack.pop();
        self.memo.insert(src.to_string(), r.clone());
        r
    }

    fn parse(text: &str) -> Result<Vec<Item>, String> {
        Self::parse_with(text, false)
    }

    /// `recover`: a prefix-less multi-line directive line (an error) is kept as text and parsing goes on,
    /// which is how clean mode, which ignores directive errors, has to read the rest of the file
    fn parse_with(text: &str, recover: bool) -> Result<Vec<Item>, String> {
        let lines = split_lines(text);
        let mut items = vec![];
        let mut i = 0;
        while i < lines.len() {
            match classify(lines[i]) {
                None => {
                    items.push(Item::Text(lines[i].to_string()));
                    i += 1;
                }
                Some(head) => {
                    if head.kind.multi() && head.prefix.is_empty() {
                        if recover {
                            items.push(Item::Text(lines[i].to_string()));
                            i += 1;
                            continue;
                        }
                        // the error is raised when the line is reached: everything before it still happens
                        items.push(Item::Dir { head, args: vec![], eof: false });
                        return Ok(items);
                    }
                    let mut args = vec![head.arg.clone()];
                    i += 1;
                    while i < lines.len() {
                        match continues(&head, lines[i]) {
                            Some(Some(a)) => {
                                args.push(a);
                                i += 1;
                            }
                            Some(None) => return Err("out-of-domain:Q4".into()),
                            None => break,
                        }
                    }
                    items.push(Item::Dir { head, args, eof: i >= lines.len() });
                }
            }
        }
        Ok(items)
    }

    fn eval_inner(&mut self, src: &str) -> Result<MFile, String> {
        let bytes = self.read(src).ok_or_else(|| format!("source {src} missing"))?;
        let text = String::from_utf8(bytes.clone()).map_err(|_| "source is not UTF-8".to_string())?;
        let le = first_le(&bytes);
        let dir = dir_of(src);
        let items = Self::parse(&text)?;
        let mut listening: Option<String> = None;
        let mut stored: BTreeMap<String, String> = BTreeMap::new();
        let mut chunks: Vec<Chunk> = vec![];
        let mut temps = BTreeMap::new();
        let mut steps = vec![];
        let mut text_lines = vec![];
        let mut used_tags = false;
        let mut pending_nl = false; // coverage only
        for it in &items {
            let st = (pending_nl as u16) | ((listening.is_some() as u16) << 1) | ((stored.len().min(3) as u16) << 2);
            match it {
                Item::Text(line) => {
                    steps.push((st, 0));
                    // tags: leftmost first, on the original line, non-overlapping, each used tag disappears
                    let mut hits: Vec<(usize, String)> =
                        stored.keys().filter_map(|k| line.find(k.as_str()).map(|i| (i, k.clone()))).collect();
                    hits.sort();
                    let mut out = String::new();
                    let mut pos = 0;
                    for (i, k) in hits {
                        if i < pos {
                            continue;
                        }
                        out.push_str(&line[pos..i]);
                        out.push_str(&normalize(&stored[&k], le));
                        pos = i + k.len();
                        stored.remove(&k);
                        used_tags = true;
                    }
                    out.push_str(&line[pos..]);
                    text_lines.push(out.clone());
                    chunks.push(Chunk::Text(out));
                    pending_nl = true;
                }
                Item::Dir { head, args, eof } => {
                    steps.push((st, 1 + head.kind as u8 + if *eof { 8 } else { 0 }));
                    if head.kind.multi() && head.prefix.is_empty() {
                        return Err("multi-line directive without prefix".into());
                    }
                    let raw: Option<String> = match head.kind {
                        Kind::Empty => None,
                        Kind::After => {
                            // no output, but the named dependency must build
                            if let Some(p) = resolve(&dir, &args[0]) {
                                if let Some(dep) = self.tree.source_of(&p) {
                                    self.eval(&dep)?;
                                }
                            }
                            None
                        }
                        Kind::Include => {
                            let arg = &args[0];
                            if arg.is_empty() {
                                return Err("include without a path".into());
                            }
                            let p = resolve(&dir, arg).ok_or("include path escapes the base")?;
                            let content = match self.tree.source_of(&p) {
                                Some(dep) => {
                                    let r = self.eval(&dep)?;
                                    if r.outs.len() != 1 {
                                        return Err("out-of-domain:ambiguous dependency output".into());
                                    }
                                    r.outs[0].clone()
                                }
                                None => {
                                    if self.tree.is_dir(&p) {
                                        return Err(format!("include target {p} is a directory"));
                                    }
                                    self.read(&p).ok_or_else(|| format!("include target {p} missing"))?
                                }
                            };
                            Some(String::from_utf8(content).map_err(|_| "included file is not UTF-8".to_string())?)
                        }
                        Kind::Run => {
                            let cmdline = args.join(" ");
                            // dependencies named by `after` are evaluated by the caller through `lookup`
                            let me: *mut Model = self;
                            let lookup = |p: &str| -> Option<Vec<u8>> {
                                // SAFETY: single-threaded re-entrance for dependency outputs
                                let m = unsafe { &mut *me };
                                let rp = resolve(&dir, p)?;
                                match m.tree.source_of(&rp) {
                                    Some(dep) => m.eval(&dep).ok().and_then(|r| r.outs.first().cloned()),
                                    None => m.read(&rp),
                                }
                            };
                            let cmd = self.cmd;
                            Some(cmd(&cmdline, &dir, &lookup).map_err(|e| format!("command failed: {e}"))?)
                        }
                        Kind::Write => Some(args.join("\n")),
                        Kind::Temp => {
                            let target = &args[0];
                            if target.is_empty() {
                                return Err("temp without a path".into());
                            }
                            if is_source_name(file_name(target)) {
                                return Err("temp target is a txtpp file".into());
                            }
                            let p = resolve(&dir, target).ok_or("temp path escapes the base")?;
                            if self.tree.is_dir(&p) {
                                return Err("temp target is a directory".into());
                            }
                            if !self.tree.is_dir(&dir_of(&p)) {
                                return Err("temp target directory missing".into());
                            }
                            let content = args[1..].join(le).into_bytes();
                            self.overlay.insert(p.clone(), content.clone());
                            temps.insert(p, content);
                            None
                        }
                        Kind::Tag => {
                            let name = &args[0];
                            if listening.is_some() {
                                return Err("tag while another tag is waiting".into());
                            }
                            if stored.keys().any(|k| k.starts_with(name.as_str()) || name.starts_with(k.as_str())) {
                                return Err("tag name equals / prefixes / is prefixed by a stored tag".into());
                            }
                            if name.is_empty() {
                                return Err("out-of-domain:D6 empty tag name".into());
                            }
                            listening = Some(name.clone());
                            None
                        }
                    };
                    if let Some(raw) = raw {
                        if let Some(t) = listening.take() {
                            stored.insert(t, raw);
                        } else {
                            let mut s = split_lines_keep(&raw).iter().map(|l| format!("{}{}", head.ws, l)).collect::<Vec<_>>().join(le);
                            if raw.ends_with('\n') {
                                s.push_str(le);
                            }
                            chunks.push(Chunk::Dir(s, *eof));
                            pending_nl = *eof;
                        }
                    }
                }
            }
        }
        if listening.is_some() || !stored.is_empty() {
            return Err("unused tag at end of file".into());
        }
        // render
        let mut out = String::new();
        let n = chunks.len();
        for (k, c) in chunks.iter().enumerate() {
            match c {
                Chunk::Text(s) => {
                    out.push_str(s);
                    if k + 1 < n || self.trailing_newline {
                        out.push_str(le);
                    }
                }
                Chunk::Dir(s, eof) => {
                    out.push_str(s);
                    if *eof && self.trailing_newline {
                        debug_assert!(k + 1 == n);
                        out.push_str(le);
                    }
                }
            }
        }
        let mut outs = vec![out.clone().into_bytes()];
        // Q1: last chunk is directive output ended by a following line and not newline-terminated
        if let Some(Chunk::Dir(_, false)) = chunks.last() {
            if self.trailing_newline && !out.ends_with('\n') {
                outs.push(format!("{out}{le}").into_bytes());
            }
        }
        let ends_in_text = matches!(items.last(), Some(Item::Text(_)));
        Ok(MFile { outs, temps, steps, text_lines, ends_in_text, le, used_tags })
    }
}

/// lines of directive output: like split_lines, used for indentation
fn split_lines_keep(raw: &str) -> Vec<&str> {
    split_lines(raw)
}

/// Temp targets named by the real temp directives of a source, by the reference grammar (C07/C10).
/// None if the source leaves the compared domain (Q4).
pub fn temp_targets(text: &str) -> Option<Vec<String>> {
    let items = Model::parse_with(text, true).ok()?;
    let mut v = vec![];
    for it in items {
        if let Item::Dir { head, args, .. } = it {
            // a temp directive naming a txtpp file is a directive error, not a temp target
            if head.kind == Kind::Temp && !args.is_empty() && !is_source_name(file_name(&args[0])) {
                v.push(args[0].clone());
            }
        }
    }
    Some(v)
}

/// Temp targets (lexically resolved against the source's directory, here the base) that one source writes
/// more than once with different contents: such a file is necessarily rewritten during every run.
pub fn temp_targets_rewritten_in_run(text: &str) -> Vec<String> {
    let mut by: std::collections::BTreeMap<String, std::collections::BTreeSet<Vec<String>>> = Default::default();
    if let Ok(items) = Model::parse_with(text, true) {
        for it in items {
            if let Item::Dir { head, args, .. } = it {
                if head.kind == Kind::Temp && !args.is_empty() {
                    let key = resolve("", &args[0]).unwrap_or_else(|| args[0].clone());
                    by.entry(key).or_default().insert(args[1..].to_vec());
                }
            }
        }
    }
    by.into_iter().filter(|(_, v)| v.len() > 1).map(|(k, _)| k).collect()
}

/// Command menu of DESIGN 4.4: stdout / failure as a function of the command text
pub fn std_cmd(cmd: &str, _dir: &str, lookup: &dyn Fn(&str) -> Option<Vec<u8>>) -> Result<String, String> {
    match cmd {
        "printf r" => Ok("r".into()),
        "printf 'r\\n'" => Ok("r\n".into()),
        "printf 'p\\nq\\n'" => Ok("p\nq\n".into()),
        "printf 'p\\r\\nq\\r\\n'" => Ok("p\r\nq\r\n".into()),
        "true" => Ok(String::new()),
        "exit 3" => Err("exit 3".into()),
        c if c.starts_with("cat ") => {
            let p = c[4..].trim();
            lookup(p).map(|b| String::from_utf8_lossy(&b).to_string()).ok_or_else(|| format!("cat: {p} missing"))
        }
        c if c.starts_with("echo x >> ") => Ok(String::new()),
        other => panic!("model: command {other:?} is not in the menu"),
    }
}
