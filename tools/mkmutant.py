#!/usr/bin/env python3
"""mkmutant.py <name> <file> <old> <new> [<file> <old> <new> ...]: write /verif/mutants/<name>.patch (repo left clean)"""
import sys, subprocess
name = sys.argv[1]
args = sys.argv[2:]
for i in range(0, len(args), 3):
    f, old, new = args[i:i+3]
    p = '/repo/' + f
    s = open(p).read()
    assert old in s, (f, old)
    open(p, 'w').write(s.replace(old, new, 1))
d = subprocess.run(['git', '-C', '/repo', 'diff'], capture_output=True, text=True).stdout
open(f'/verif/mutants/{name}.patch', 'w').write(d)
subprocess.run(['git', '-C', '/repo', 'checkout', '--', '.'])
print(name, len(d.splitlines()), 'lines')
