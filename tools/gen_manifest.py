#!/usr/bin/env python3
"""Regenerates /verif/MANIFEST.json from the table below (kept by hand)."""
import json, subprocess
S_NOTE = ("Trusted: std::sync::mpsc, the threadpool crate, the OS file system. Task bodies are run one at a time "
          "(DESIGN 4.5 argues, and the un-reduced explorer checks at <=3 files, that this loses no outcome). "
          "4-file graphs: one labelled representative per isomorphism class.")
CHECKS = {
 "C02": dict(engine="S", technique="stateless model checking of the real coordinator: exhaustive DFS over all task completion orders under a controlled scheduler",
   text="Every acyclic dependency graph on <=3 files (all labelled in thorough) and all isomorphism classes on 4 files (thorough; six named ones in quick), every input selection, pre-states stale / absent / every output a symbolic link into another directory (fixed modification times: outputs newer than sources), Build/InMemoryBuild/Verify, files spread over directories with the three name shapes (the infix one with a dotted stem), five source styles (include; after+run cat; mixed; last dependency on the last line; every dependency twice): ALL orders in which gated worker tasks can complete are executed on the real Txtpp::run; outputs must equal the closed-form serial oracle, the hook trace must show each dependency's final pass ending before the depender's final pass begins, and the outcome set per project must be a singleton.",
   ref="4.5, 5/C02", note=S_NOTE),
 "C03": dict(engine="S", technique="stateless model checking of the real coordinator: exhaustive DFS over all task completion orders under a controlled scheduler",
   text="All digraphs with self-loops (same sizes as C02) with an execution-marker command per file, input selections including duplicates and aliases (same file twice, source and output name, ./ and ../ spellings, absolute path, symlink to the source, directory named twice, directory symlink, a directory that holds only links to the sources, a directory link inside an otherwise empty directory with -r, a source-named link whose target has no source name): every completion order terminates (controller detects the coordinator polling forever, unbounded task creation, panics), on success each required file has exactly one completed final pass, no pass runs twice, each marker has exactly one line; with a failing file anywhere in the graph the run still terminates (unsaturated and single-thread pools); files spread over directories with all three name shapes and ../ includes; dependency lists that name every dependency twice (multi-edges, up to 4 files); an abstract protocol model bound to every explored schedule is explored on all 5-file digraphs.",
   ref="4.5, 5/C03", note=S_NOTE),
 "C05": dict(engine="S", technique="stateless model checking of the real coordinator: exhaustive DFS over all task completion orders under a controlled scheduler",
   text="All digraphs with self-loops on <=3 files and 4-file classes, all selections, modes Build/InMemoryBuild/Verify: in every completion order a selection that can reach a cycle yields Err (never Hang, never Ok), every required file outside the cycle's upstream closure equals the serial oracle afterwards, and an acyclic selection never fails; also with dependency lists that name every dependency twice and with files spread over directories in the three name shapes (dotted infix stems).",
   ref="4.5, 5/C05", note=S_NOTE),
}
E_NOTE = ("Trusted: the reference model M (harness/src/model.rs, written from the README and bound to the implementation from both sides: every "
          "enumerated case is executed on the real code, and M's grammar/tag sub-functions are themselves compared with the real detect_from/add_line/TagState "
          "on larger spaces by C15/C14); sh for commands of the menu; inputs outside the stated alphabet and length bound are not covered.")
E_TECH = "bounded-exhaustive enumeration of all inputs over a decision-point alphabet up to a length, every case executed on the real preprocess and compared with a reference state machine (model + conformance of all traces)"
CHECKS.update({
 "C01": dict(engine="E-lines", technique=E_TECH,
   text="All sources of <=3 (quick) / <=5 (thorough) lines over a 20-symbol line alphabet chosen from the branches of the directive state machine (plus 4 run symbols to length 3/4, plus a 20-symbol extension alphabet - tab indentation, blank/non-ASCII prefixes, after, CRLF and mixed includes, sub-directory temp targets - to length 3/4), and all include projects on <=2/3 files across three directory levels x 6 body styles x the three source-name shapes, x LF/CRLF x final newline x trailing-newline option, each built by the real preprocess (first pass, final pass and in-memory mode for short ones) and compared byte for byte (output, temp target, verdict) with the parse-then-render reference interpreter on the documented domain (DESIGN 4.3); plus first lines of 8190..70000 bytes, a file-state alphabet (one file rewritten by temp between includes, <=5/6 symbols) and all pairs of seven tag names pending at the same time.",
   ref="4.2, 4.3, 4.7, 5/C01", note=E_NOTE),
 "C12": dict(engine="E-lines", technique=E_TECH,
   text="All sources of <=4/5 lines over 9 line shapes with every source line carrying its own terminator (LF/CRLF/none), included file in 4 line-ending variants and command output in 3: byte scan of output and temp target for any terminator other than the first line's; every uniformly terminated source is also rebuilt (build and --needed) over generated files holding the same text with the other line ending.",
   ref="4.7, 5/C12", note="Trusted: the byte-scan oracle needs no model; domain: CR only before LF. " + E_NOTE),
 "C13": dict(engine="E-lines", technique=E_TECH,
   text="The C01 source space built with the option on and off by the real preprocess: verdicts equal, temp targets equal, outputs equal or differing by exactly one final line ending, and exactly so when the source ends in an ordinary text line; plus dependency pairs, last chunks of 8191..70000 bytes, and the production CLI's -n flag on all sources of <=1/2 lines.",
   ref="4.7, 5/C13", note=E_NOTE),
 "C14": dict(engine="U-tag", technique="explicit-state BFS over the reference tag store; every model transition replayed on the real TagState and the resulting state probed; hash iteration orders observed exhaustively per order-sensitive transition",
   text="BFS to depth 5/7 over the reference store (7 prefix-rich names, 9 contents incl. LF, CRLF and mixed terminators, all inject lines of <=4/5 chars over {a,b,-} x LF/CRLF): every transition of every reachable model state is executed on a real TagState rebuilt from the state's history; return value, resulting names and contents must agree, under every observed iteration order of the hash map. Whole files of <=4/5 lines over a 13-line tag alphabet are compared with M and repeated.",
   ref="4.7, 5/C14", note="Trusted: the reference store (harness/src/tags.rs, an ordered map written from the property text). Hash order is observed via Display, not controlled (cap 200 tries per transition)."),
 "C15": dict(engine="U-gram", technique=E_TECH,
   text="Every line of <=4/5 tokens over a 20-token alphabet (incl. U+3000, VT, upper-case look-alikes) through the real Directive::detect_from, every (directive line of <=4 tokens, next line) pair through the real add_line, compared with a reference classifier/continuation matcher written from the property statement; end-to-end sources [l1,l2,END] through whole-file preprocess against M.",
   ref="4.7, 5/C15", note=E_NOTE + " Q4 pairs (spaces form after a non-ASCII prefix) are excluded and counted."),
 "C16": dict(engine="E-lines", technique=E_TECH,
   text="All texts over 11 directive look-alike tokens (incl. NUL and U+FEFF) (<=2 tokens x <=2/3 lines and <=3 tokens x <=1/2 lines): directive-free ones must be reproduced verbatim (LF/CRLF, final newline, option), also with lines of 8191..70000 bytes in build and --needed; every admissible text is round-tripped through its write-escape without a stored tag, with one in scope, and captured by a second tag and injected next to the first; on the C01 space ordinary lines must appear in order.",
   ref="4.7, 5/C16", note=E_NOTE),
})
H_NOTE = ("Trusted: the OS file system (tmpfs); runs use the controller's canonical schedule (schedules belong to C02-C05); Fresh(sources) is computed "
          "differentially by the implementation itself on a pristine copy; four hand-written projects (solo, chain, errsrc, nested) with decoy files.")
H_TECH = "explicit-state breadth-first search over operation histories (txtpp runs x edits x tamperings) with state de-duplication on tree content; invariants evaluated on every transition of the real implementation"
CHECKS.update({
 "C06": dict(engine="H", technique=H_TECH, ref="4.6, 5/C06", note=H_NOTE,
   text="BFS to depth 2-3 (quick) / 3-4 (thorough) on seven projects (incl. an empty output, an output of exactly one 8 KiB buffer, a 17 KB output), an exhaustive single-byte sweep (every offset x all 255 other values, deletion, insertion) of every output, per-source mini-histories over all sources of <=3/4 lines, and the production binary on every RUN transition of one project; over histories of {build, needed, verify, clean} x input selections x trailing-newline flag, source edits and 11 kinds of tampering of each generated file, from the pristine and the freshly built tree (nine projects, incl. a dependency reached only by `after`, outputs of 0, 8192 and > 65536 bytes, dotted names, a directory link), plus build/verify through an output path that is a symbolic link: on every verify transition, success iff every output of the processed sources and their dependencies equals what a pristine build writes now; outputs keep bytes, inode and mtime."),
 "C07": dict(engine="H", technique=H_TECH, ref="4.6, 5/C07", note=H_NOTE + " Known finding F4 (clean does not follow dependencies) is listed in known_findings.json.",
   text="Same search plus all sources of <=3/5 lines over a 20-line alphabet rich in directive look-alikes inside multi-line directives, temp directives naming existing files / txtpp files / a symbolic link / without prefix (clean without build changes nothing; build then clean restores the tree): every clean transition succeeds (also with erroneous sources), runs no command (marker files), creates nothing, deletes no .txtpp file and touches only outputs/temp targets of the named sources; from a freshly built state, clean of the same inputs restores the pre-build tree exactly."),
 "C08": dict(engine="H + K", technique=H_TECH + "; crash points enumerated with strace fault injection", ref="4.6, 5/C08", note=H_NOTE,
   text="Same search plus every byte-prefix of every generated file of project solo, every crash point (strace SIGKILL injection at the k-th file-system call) of build and --needed on four projects incl. one with a multi-buffer output, and all sources of <=3/4 lines over a 20-line alphabet (short ones also without final newline) with stale / non-UTF-8 / empty / CRLF leftovers, and two-pass sources that generate a file and include it later: every build transition gives the verdict and the bytes of a build from a pristine tree with the same sources, whatever was at the generated paths (stale, truncated, non-UTF-8, absent)."),
 "C09": dict(engine="H", technique=H_TECH, ref="4.6, 5/C09", note=H_NOTE,
   text="Same search: every --needed transition is paired with a normal build and a verify from a copy of the same state: same verdict and bytes; outputs whose content was already correct keep inode and sentinel mtime; temp targets already correct are not rewritten by build, needed or verify; stale ones are brought up to date."),
 "C10": dict(engine="H", technique=H_TECH, ref="4.6, 5/C10", note=H_NOTE,
   text="Every transition of the search and every mode on all sources of <=3/5 lines over the look-alike alphabet, successful and failing runs, the empty input list of the library API: the set of paths whose existence, bytes, inode or mtime changed is a subset of the outputs and temp targets of the processed sources (decoys at near-miss names in every directory); verify leaves outputs untouched; clean creates nothing; the production binary repeats the transitions of three projects, the sub-commands also with -N in front."),
 "C17": dict(engine="E-conf", technique="exhaustive enumeration of a finite configuration space, each configuration executed on the real library (in a child process with the required cwd) or the production binary",
   ref="4.7, 5/C17", note="Trusted: sh, bash, pwd -P. TXTPP_FILE 'designates' the source if it resolves to it as absolute path, relative to the base directory, or relative to the command's directory (Q5).",
   text="depth 0..3 x {library with 4 base-dir/cwd relations, CLI} x {default shell, bash -c, an argv-echo script} x {6 command shapes incl. stdout that is not valid UTF-8, exit codes 0/1/7, death by SIGKILL} (1200 configurations; entries named sh / bash in every process working directory) plus the TXTPP_FILE guard of the binary in 4 modes (values and source names that are not valid UTF-8 included), a source that calls txtpp, and a source with commands that enters the run only as a dependency (below / above the depender): working directory, TXTPP_FILE, the single joined argument seen by the shell, stdout splicing and exit-status handling."),
})
CHECKS.update({
 "C04": dict(engine="S + X", technique="fault enumeration crossed with stateless model checking: every (fault kind, position, mode, input selection) explored under ALL task completion orders of the real coordinator; write limits enumerated at every byte count on the production binary",
   ref="4.5, 5/C04", note=S_NOTE + " Faults are real OS-level faults (directory in the way, /dev/full, RLIMIT_FSIZE, missing directories, invalid UTF-8); permission faults cannot be produced as root.",
   text="Project a->b->c plus unrelated d: 16 fault kinds (directive errors, non-zero exit and death by signal of a command, unreadable/invalid/non-UTF-8 includes and sources, occupied or unwritable output and temp paths, in-process write limits, verify mismatches) x 5 positions of the faulty file (root, middle, leaf, sibling, sibling with an empty output) x {build, needed, verify, clean where it applies} x pool sizes (unsaturated, 1, 2) x input selections, each explored under all completion orders: the run must return Err in every schedule (never Ok, hang or panic); the fault-free baseline must return Ok with correct outputs in every schedule. Fault sequences: a fault in a->b plus a directory that vanishes while it waits to be scanned (-r), all completion orders. RLIMIT_FSIZE = n for every n from 0 to the largest generated file + 1 on the production binary: exit 0 iff nothing hit the limit, and then all outputs are complete; and on a project whose outputs end with one chunk > 8 KiB (include, command output, long last line, temp target): every multiple of 512 and +-1 around every multiple of 4096, trailing newline on/off, build and --needed."),
 "C11": dict(engine="E-tree", technique="exhaustive enumeration of directory trees x input lists x options, each executed on the real Txtpp::run (processed sources observed through the hook trace) and compared with a reference set-of-sources function",
   ref="4.7, 5/C11", note="Trusted: the reference function expected_set (harness/src/etree.rs), written from the property statement; canonical schedule.",
   text="8 (quick) / 512 (thorough) trees over 3 directory levels x subsets of the three source-name shapes, with look-alike names in every directory, dotted-stem names and an include variant; input lists of length <=1/2 over 26 spellings (incl. sibling directories in a string-prefix relation, directory links, `link/..` and a file link) (directories, either name, ./ and ../, absolute, missing, look-alikes) x recursive x build/needed/verify/clean x absolute/relative base: the processed set (hook trace), the created / removed / verified outputs and their names must be exactly what the statement prescribes; a target without source must fail; variants with source-like directory names, hard-linked sources and directories named like a sibling's output; the production binary repeats single spellings and pairs on three trees in all four modes."),
 "C18": dict(engine="E-bytes", technique="bounded-exhaustive enumeration of hostile byte strings, arguments and option values, each executed on the real Txtpp::run under the controller (worker panics and the resulting coordinator hang are observed) and on the production binary",
   ref="4.7, 5/C18", note="Trusted: nothing beyond the OS. Bytes outside the 17-token alphabet and strings longer than the bound are not covered; special files are outside the domain.",
   text="All byte strings of <=3/4 tokens over 17 hostile tokens (NUL, 0xff, split UTF-8, lone CR, directive fragments) in 4 roles (source, included file, existing output, existing temp target) x 4 modes; 270+ hostile directive lines; lines of 8191/8192/8193/65537 bytes; commands writing 65536/65537/300000 bytes to stdout / stderr / both; directives with 60000 continuation lines; 70 sources named one by one of which the first fails; threads 0..16, 7 shells, bad base directories and inputs; the production binary on a 33-case core x 4 modes x thread counts x recursive: every run returns Ok or Err, no thread panics, the binary exits 0 or 1 in bounded time."),
})
NOT_YET = {}
props = [json.loads(l) for l in open("/verif/properties.jsonl")]
checks, na = [], []
for p in props:
    i = p["id"]
    if i in CHECKS:
        c = CHECKS[i]
        checks.append({
            "property_id": i,
            "quick_cmd": f"./check {i} quick",
            "thorough_cmd": f"./check {i} thorough",
            "evidence_file": f"/verif/evidence/{i}.json",
            "replay_cmd_template": "./check replay {path}",
            "engine": c["engine"],
            "level_claimed": {"category": "model_checking", "text": c["text"], "design_ref": c["ref"]},
            "level_note": c["note"],
            "technique": c["technique"],
        })
    else:
        na.append({"property_id": i, "reason": NOT_YET.get(i, "check not built yet in this round (planned: DESIGN.md section 5); nothing is claimed for it")})
commits = subprocess.run(["git", "-C", "/repo", "log", "--format=%h %s", "--grep=^verif:"], capture_output=True, text=True).stdout.strip().splitlines()
m = {
 "version": 1,
 "setup_cmd": "./check setup",
 "hooks": {
   "guard": "cargo feature `verif` (off by default)",
   "enable": "the harness crate depends on txtpp = { path = \"/repo\", default-features = false, features = [\"verif\"] }; every ./check rebuilds it from the working tree",
   "baseline_off_cmd": "cd /repo && cargo test --workspace --no-fail-fast --offline",
   "source_commits": [c.split()[0] for c in commits],
   "add_only": True,
 },
 "engines": [
   {"name": "E-lines / U-gram / U-tag", "path": "/verif/harness/src/model.rs, elines.rs, elines2.rs, gram.rs, tags.rs", "serves_properties": ["C01", "C12", "C13", "C14", "C15", "C16"], "kind_free_text": "bounded-exhaustive input enumeration against a reference state machine, all traces replayed on the real code"},
   {"name": "H", "path": "/verif/harness/src/hist.rs", "serves_properties": ["C06", "C07", "C08", "C09", "C10"], "kind_free_text": "BFS over operation histories of a project tree with state dedup; every transition executes the real txtpp"},
   {"name": "E-conf", "path": "/verif/harness/src/conf.rs", "serves_properties": ["C17"], "kind_free_text": "exhaustive configuration enumeration"},
   {"name": "X (faults)", "path": "/verif/harness/src/faults.rs, limit_exec.rs", "serves_properties": ["C04"], "kind_free_text": "fault enumeration under all schedules; RLIMIT_FSIZE launcher"},
   {"name": "E-tree / E-bytes", "path": "/verif/harness/src/etree.rs, ebytes.rs", "serves_properties": ["C11", "C18"], "kind_free_text": "exhaustive enumeration of trees/inputs and of hostile bytes/options"},
   {"name": "S", "path": "/verif/harness/src/ctl.rs, sched.rs", "serves_properties": ["C02", "C03", "C05"], "kind_free_text": "controlled scheduler behind txtpp's verif hooks + DFS over task completion orders on the real Txtpp::run"},
 ],
 "checks": checks,
 "not_applicable": na,
 "notes": "exit codes: 0 held, 1 violation (VIOLATION line + replay file), 2 machinery failure. Known findings: /verif/known_findings.json.",
}
json.dump(m, open("/verif/MANIFEST.json", "w"), indent=1)
print("checks:", len(checks), "not_applicable:", len(na))
