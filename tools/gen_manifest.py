#!/usr/bin/env python3
"""Regenerates /verif/MANIFEST.json from the table below (kept by hand)."""
import json, subprocess
S_NOTE = ("Trusted: std::sync::mpsc, the threadpool crate, the OS file system. Task bodies are run one at a time "
          "(DESIGN 4.5 argues, and the un-reduced explorer checks at <=3 files, that this loses no outcome). "
          "4-file graphs: one labelled representative per isomorphism class.")
CHECKS = {
 "C02": dict(engine="S", technique="stateless model checking of the real coordinator: exhaustive DFS over all task completion orders under a controlled scheduler",
   text="Every acyclic dependency graph on <=3 files (all labelled in thorough) and all isomorphism classes on 4 files (thorough; six named ones in quick), every input selection, stale/absent pre-state, Build/InMemoryBuild/Verify: ALL orders in which gated worker tasks can complete are executed on the real Txtpp::run; outputs must equal the closed-form serial oracle, the hook trace must show each dependency's final pass ending before the depender's final pass begins, and the outcome set per project must be a singleton.",
   ref="4.5, 5/C02", note=S_NOTE),
 "C03": dict(engine="S", technique="stateless model checking of the real coordinator: exhaustive DFS over all task completion orders under a controlled scheduler",
   text="All digraphs with self-loops (same sizes as C02) with an execution-marker command per file, input selections including duplicates and aliases (same file twice, source and output name, ./ and ../ spellings, absolute path, symlink to the source, directory named twice, directory symlink): every completion order terminates (controller detects the coordinator polling forever, unbounded task creation, panics), on success each required file has exactly one completed final pass, no pass runs twice, each marker has exactly one line.",
   ref="4.5, 5/C03", note=S_NOTE),
 "C05": dict(engine="S", technique="stateless model checking of the real coordinator: exhaustive DFS over all task completion orders under a controlled scheduler",
   text="All digraphs with self-loops on <=3 files and 4-file classes, all selections, modes Build/InMemoryBuild/Verify: in every completion order a selection that can reach a cycle yields Err (never Hang, never Ok), every required file outside the cycle's upstream closure equals the serial oracle afterwards, and an acyclic selection never fails.",
   ref="4.5, 5/C05", note=S_NOTE),
}
NOT_YET = {}
props = [json.loads(l) for l in open("/verif/properties.jsonl")]
checks, na = [], []
for p in props:
    i = p["id"]
    if i in CHECKS:
        c = CHECKS[i]
        checks.append({
            "property_id": i,
            "quick_cmd": f"./check {i} quick",
            "thorough_cmd": f"./check {i} thorough",
            "evidence_file": f"/verif/evidence/{i}.json",
            "replay_cmd_template": "./check replay {path}",
            "engine": c["engine"],
            "level_claimed": {"category": "model_checking", "text": c["text"], "design_ref": c["ref"]},
            "level_note": c["note"],
            "technique": c["technique"],
        })
    else:
        na.append({"property_id": i, "reason": NOT_YET.get(i, "check not built yet in this round (planned: DESIGN.md section 5); nothing is claimed for it")})
commits = subprocess.run(["git", "-C", "/repo", "log", "--format=%h %s", "--grep=^verif:"], capture_output=True, text=True).stdout.strip().splitlines()
m = {
 "version": 1,
 "setup_cmd": "./check setup",
 "hooks": {
   "guard": "cargo feature `verif` (off by default)",
   "enable": "the harness crate depends on txtpp = { path = \"/repo\", default-features = false, features = [\"verif\"] }; every ./check rebuilds it from the working tree",
   "baseline_off_cmd": "cd /repo && cargo test --workspace --no-fail-fast --offline",
   "source_commits": [c.split()[0] for c in commits],
   "add_only": True,
 },
 "engines": [
   {"name": "S", "path": "/verif/harness/src/ctl.rs, sched.rs", "serves_properties": ["C02", "C03", "C05"], "kind_free_text": "controlled scheduler behind txtpp's verif hooks + DFS over task completion orders on the real Txtpp::run"},
 ],
 "checks": checks,
 "not_applicable": na,
 "notes": "exit codes: 0 held, 1 violation (VIOLATION line + replay file), 2 machinery failure. Known findings: /verif/known_findings.json.",
}
json.dump(m, open("/verif/MANIFEST.json", "w"), indent=1)
print("checks:", len(checks), "not_applicable:", len(na))
