#!/usr/bin/env python3
"""Mutation lab (diagnostic, not a check): generate simple syntactic mutants of /repo/src, and for each one that
compiles and survives the repository's own suite, run the quick checks mapped to the mutated file.
Works in private copies ("lanes") of /repo and of the harness under /tmp/mutlab, several in parallel.
Usage: tools/mutlab.py [--lanes 4] [--files substr,...] [--limit N]   ->  /verif/mutants/MUTLAB.md"""
import os, re, sys, json, subprocess, shutil, hashlib, time, argparse, threading, queue
ap = argparse.ArgumentParser(); ap.add_argument('--lanes', type=int, default=4); ap.add_argument('--files', default=''); ap.add_argument('--limit', type=int, default=0); ap.add_argument('--threads', type=int, default=4)
a = ap.parse_args()
ROOT = '/tmp/mutlab'
FILEMAP = {
 'src/core/execute/mod.rs': ['C02', 'C03', 'C05', 'C04', 'C11'],
 'src/core/util/dependency.rs': ['C02', 'C03', 'C05'],
 'src/core/execute/pp/mod.rs': ['C01', 'C14', 'C16', 'C07', 'C12', 'C13', 'C02'],
 'src/core/execute/pp/directive/directive_from.rs': ['C15', 'C01'],
 'src/core/execute/pp/directive/directive_add_line.rs': ['C15', 'C16', 'C18'],
 'src/core/execute/pp/directive/mod.rs': ['C15', 'C01'],
 'src/core/util/tag_state.rs': ['C14', 'C01'],
 'src/core/util/string.rs': ['C14', 'C12'],
 'src/fs/io_context.rs': ['C06', 'C08', 'C09', 'C10', 'C07', 'C04'],
 'src/fs/line_ending.rs': ['C12', 'C01'],
 'src/fs/path/mod.rs': ['C11', 'C10', 'C08'],
 'src/fs/path/abs_path.rs': ['C11', 'C03', 'C17', 'C10'],
 'src/fs/shell.rs': ['C17', 'C04'],
 'src/core/execute/resolve_inputs.rs': ['C11'],
 'src/core/execute/scan_dir.rs': ['C11', 'C03'],
 'src/main.rs': ['C13', 'C09', 'C17', 'C18'],
}
OPS = [
 (r'==', '!='), (r'!=', '=='), (r'<=', '<'), (r'>=', '>'), (r' < ', ' <= '), (r' > ', ' >= '),
 (r'&&', '||'), (r'\|\|', '&&'), (r'\btrue\b', 'false'), (r'\bfalse\b', 'true'),
 (r'if !', 'if '), (r'\+ 1\b', '+ 0'), (r'- 1\b', '- 0'), (r'<= 1\b', '<= 0'),
 (r'\bcontinue;', 'break;'), (r'\.is_some\(\)', '.is_none()'), (r'\.is_none\(\)', '.is_some()'),
 (r'\.is_ok\(\)', '.is_err()'), (r'\.is_err\(\)', '.is_ok()'), (r'\.is_empty\(\)', '.len() == 1'),
 (r'\.starts_with\(', '.ends_with('), (r'\.ends_with\(', '.starts_with('), (r'\.find\(', '.rfind('),
 (r'\.trim_end_matches\(', '.trim_start_matches('), (r'\.first\(\)', '.last()'), (r'\.skip\(1\)', '.skip(0)'),
 (r'\bSome\(\(', 'None.or(Some(('),
]
def mutants_of(path, text):
    lines = text.split('\n')
    out = []
    in_test = False
    for i, l in enumerate(lines):
        if '#[cfg(test)]' in l: in_test = True
        if in_test: continue
        st = l.strip()
        if not st or st.startswith('//') or st.startswith('#[') or 'log::' in l or 'attach_printable' in l or 'format!' in l and 'let' not in l:
            continue
        for pat, rep in OPS:
            for m in re.finditer(pat, l):
                nl = l[:m.start()] + rep + l[m.end():]
                out.append((i, pat, '\n'.join(lines[:i] + [nl] + lines[i+1:]), l.strip(), nl.strip()))
        # statement deletion: a plain method-call statement
        if re.match(r'^\s*(self\.)?[a-z_\.]+\([^;]*\);\s*$', l) and 'let ' not in l and 'return' not in l:
            out.append((i, 'delete-statement', '\n'.join(lines[:i] + [l[:len(l)-len(l.lstrip())] + ';'] + lines[i+1:]), l.strip(), ';'))
    return out
def checks_str(r):
    return ', '.join(k + ':' + str(v['exit']) for k, v in r['checks'].items())
def sh(cmd, cwd=None, env=None, timeout=900):
    try:
        r = subprocess.run(cmd, cwd=cwd, env=env, capture_output=True, text=True, timeout=timeout)
        return r.returncode, r.stdout + r.stderr
    except subprocess.TimeoutExpired:
        return 124, 'TIMEOUT'
def setup_lane(k):
    lane = f'{ROOT}/lane{k}'
    shutil.rmtree(lane, ignore_errors=True)
    os.makedirs(lane)
    sh(['rsync', '-a', '--exclude', 'target', '--exclude', '.git', '/repo/', f'{lane}/repo/'])
    sh(['rsync', '-a', '--exclude', 'target', '/verif/harness/', f'{lane}/harness/'])
    t = open(f'{lane}/harness/Cargo.toml').read().replace('path = "/repo"', f'path = "{lane}/repo"')
    open(f'{lane}/harness/Cargo.toml', 'w').write(t)
    c = open(f'{lane}/harness/.cargo/config.toml').read().replace('/verif/target/harness', f'{lane}/target/harness')
    open(f'{lane}/harness/.cargo/config.toml', 'w').write(c)
    os.makedirs(f'{lane}/root/evidence', exist_ok=True)
    shutil.copy('/verif/known_findings.json', f'{lane}/root/')
    return lane
def build(lane):
    e = dict(os.environ, CARGO_NET_OFFLINE='true')
    rc, out = sh(['cargo', 'build', '--release', '--offline'], cwd=f'{lane}/harness', env=e)
    if rc: return False, out
    rc, out = sh(['cargo', 'build', '--release', '--offline', '--target-dir', f'{lane}/target/cli'], cwd=f'{lane}/repo', env=e)
    return rc == 0, out
def run_lane(k, q, results, lock):
    lane = setup_lane(k)
    ok, out = build(lane)
    if not ok:
        print('lane', k, 'initial build failed', out[-500:]); return
    env = dict(os.environ, CARGO_NET_OFFLINE='true', VERIF_ROOT_DIR=f'{lane}/root', VERIF_CLI=f'{lane}/target/cli/release/txtpp', VERIF_THREADS=str(a.threads), CARGO_TARGET_DIR=f'{lane}/target/suite')
    env.pop('TXTPP_FILE', None)
    while True:
        try: item = q.get_nowait()
        except queue.Empty: return
        f, (ln, op, newtext, old, new) = item
        orig = open(f'{lane}/repo/{f}').read()
        open(f'{lane}/repo/{f}', 'w').write(newtext)
        rec = {'file': f, 'line': ln + 1, 'op': op, 'old': old, 'new': new}
        try:
            ok, out = build(lane)
            if not ok:
                rec['status'] = 'does not compile'
            else:
                rc, out = sh(['cargo', 'test', '--workspace', '--no-fail-fast', '--offline'], cwd=f'{lane}/repo', env=env, timeout=300)
                if rc != 0:
                    rec['status'] = 'killed by the repo suite' + (' (hang)' if rc == 124 else '')
                else:
                    rec['status'] = 'survives the suite'
                    rec['checks'] = {}
                    for p in FILEMAP[f]:
                        rc, out = sh([f'{lane}/target/harness/release/vcheck', p, 'quick'], cwd='/', env=env, timeout=900)
                        first = next((l.strip()[:150] for l in out.splitlines() if l.strip().startswith('[')), '')
                        rec['checks'][p] = {'exit': rc, 'first': first}
                        if rc == 1: break
                    rec['caught'] = any(v['exit'] == 1 for v in rec['checks'].values())
        finally:
            open(f'{lane}/repo/{f}', 'w').write(orig)
        with lock:
            results.append(rec)
            json.dump(results, open('/verif/mutants/mutlab.json', 'w'), indent=1)
            print(f"[{len(results)}] {f}:{ln+1} {op}: {rec['status']}" + (f" -> {'caught' if rec.get('caught') else 'MISSED'} {list(rec['checks'].items())[-1]}" if 'checks' in rec else ''), flush=True)
items = []
for f in FILEMAP:
    if a.files and not any(s in f for s in a.files.split(',')): continue
    text = open('/repo/' + f).read()
    for m in mutants_of(f, text): items.append((f, m))
if a.limit: 
    import random; random.seed(1); random.shuffle(items); items = items[:a.limit]
print(len(items), 'mutants')
q = queue.Queue()
for it in items: q.put(it)
results = []; lock = threading.Lock()
ths = [threading.Thread(target=run_lane, args=(k, q, results, lock)) for k in range(a.lanes)]
for t in ths: t.start()
for t in ths: t.join()
surv = [r for r in results if r['status'] == 'survives the suite']
with open('/verif/mutants/MUTLAB.md', 'w') as fo:
    fo.write(f'# Mutation lab\n\n{len(results)} syntactic mutants; {sum(1 for r in results if r["status"]=="does not compile")} do not compile; {sum(1 for r in results if r["status"].startswith("killed"))} killed by the repository suite; {len(surv)} survive it, of which {sum(1 for r in surv if r.get("caught"))} are caught by the quick checks mapped to the file.\n\n## Survivors of the suite that the mapped checks did not catch\n\n| file:line | operator | before | after | checks run |\n|---|---|---|---|---|\n')
    for r in surv:
        if not r.get('caught'):
            fo.write(f"| {r['file']}:{r['line']} | `{r['op']}` | `{r['old'][:80]}` | `{r['new'][:80]}` | {checks_str(r)} |\n")
shutil.rmtree(ROOT, ignore_errors=True)
print('written mutants/MUTLAB.md')
