#!/bin/bash
# tools/seedcheck.sh confirm <ID>            : in the sub-agent's scratch worktree: suite passes with the change; demo fails with it, passes without
# tools/seedcheck.sh check <ID> <checks...>  : apply the patch to /repo, run our quick checks, undo
set -u
WHAT=$1; ID=$2; shift 2
ROOT=${SEEDROOT:-/tmp/seed}; WT=$ROOT/$ID
OUT=$WT/SEED_OUT
[ -d $OUT ] || OUT=/verif/seeded/$ID
LOG=$ROOT/$ID.confirm.log
if [ $WHAT = confirm ]; then
  : > $LOG
  cd $WT || exit 2
  git checkout -q -- . 2>/dev/null
  git apply $OUT/patch.diff || { echo "patch does not apply"; exit 2; }
  echo "== suite with change" | tee -a $LOG
  ( timeout 900 cargo test --workspace --no-fail-fast --offline 2>&1 | grep -E "^test result|FAILED|panicked|^error" ) | tee -a $LOG
  echo "== demo with change (expect non-zero)" | tee -a $LOG
  ( timeout 1800 bash $OUT/demo.sh $WT >> $LOG 2>&1 ); echo "demo exit with change: $?" | tee -a $LOG
  git checkout -q -- .
  echo "== demo without change (expect 0)" | tee -a $LOG
  ( timeout 1800 bash $OUT/demo.sh $WT >> $LOG 2>&1 ); echo "demo exit without change: $?" | tee -a $LOG
  exit 0
fi
cd /verif
[ -z "$(git -C /repo status --porcelain)" ] || { echo "/repo not clean"; exit 2; }
git -C /repo apply $OUT/patch.diff || { echo "patch does not apply to /repo"; exit 2; }
TIER=${TIER:-quick}
for c in "$@"; do
  ./check $c $TIER > $ROOT/$ID.$c.out 2>&1; echo "check $c $TIER exit: $?"
  grep -m2 -E "^\s+\[" $ROOT/$ID.$c.out | cut -c1-400
done
git -C /repo checkout -- .
