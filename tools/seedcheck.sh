#!/bin/bash
# tools/seedcheck.sh <ID> [check-ids...]: confirm a sub-agent's seeded change in its scratch worktree
# (suite passes with it; demo fails with it and passes without), then run our checks against it in /repo.
set -u
ID=$1; shift
WT=/tmp/seed/$ID
OUT=$WT/SEED_OUT
LOG=/tmp/seed/$ID.confirm.log
: > $LOG
cd $WT || exit 2
git checkout -q -- . 2>/dev/null
git apply $OUT/patch.diff || { echo "patch does not apply"; exit 2; }
echo "== suite with change" | tee -a $LOG
( timeout 900 cargo test --workspace --no-fail-fast --offline 2>&1 | grep -E "^test result|FAILED|panicked|error" ) | tee -a $LOG
echo "== demo with change (expect non-zero)" | tee -a $LOG
( timeout 900 bash $OUT/demo.sh $WT >> $LOG 2>&1 ); echo "demo exit with change: $?" | tee -a $LOG
git checkout -q -- .
echo "== demo without change (expect 0)" | tee -a $LOG
( timeout 900 bash $OUT/demo.sh $WT >> $LOG 2>&1 ); echo "demo exit without change: $?" | tee -a $LOG
cd /verif
[ -z "$(git -C /repo status --porcelain)" ] || { echo "/repo not clean"; exit 2; }
git -C /repo apply $OUT/patch.diff || { echo "patch does not apply to /repo"; exit 2; }
for c in "$@"; do
  echo "== ./check $c quick" | tee -a $LOG
  ./check $c quick > /tmp/seed/$ID.$c.out 2>&1; echo "check $c exit: $?" | tee -a $LOG
  grep -m2 -E "^\s+\[" /tmp/seed/$ID.$c.out | cut -c1-300 | tee -a $LOG
done
git -C /repo checkout -- .
