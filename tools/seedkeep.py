#!/usr/bin/env python3
"""seedkeep.py <ID> <dirname> <needs> <caught_by> : copy a confirmed seeded change into /verif/seeded/<dirname>/"""
import sys, os, shutil, json, subprocess
ID, name, needs, caught = sys.argv[1:5]
import os as _os; ROOT=_os.environ.get('SEEDROOT','/tmp/seed'); src = f'{ROOT}/{ID}/SEED_OUT'
dst = f'/verif/seeded/{name}'
os.makedirs(dst, exist_ok=True)
for f in os.listdir(src):
    if f == 'PROPERTY.txt':
        continue
    s = os.path.join(src, f)
    if os.path.isdir(s):
        shutil.copytree(s, os.path.join(dst, f), dirs_exist_ok=True)
    else:
        shutil.copy(s, dst)
log = open(f'{ROOT}/{ID}.confirm.log').read() if os.path.exists(f'{ROOT}/{ID}.confirm.log') else ''
conf = [l for l in log.splitlines() if l.startswith('demo exit') or l.startswith('test result')]
meta = {
    'property': ID[:3], 'seed_id': ID,
    'origin': 'independent sub-agent given only the property text and a scratch worktree of /repo (HEAD incl. hooks and fix commits)',
    'needs_to_manifest': needs,
    'confirmed_by_me': {
        'how': 'tools/seedcheck.sh confirm: in the scratch worktree, cargo test --workspace --no-fail-fast --offline with the patch; demo.sh with and without the patch',
        'results': conf,
    },
    'checks_run_against_it': caught,
    'base_commit': subprocess.run(['git', '-C', '/repo', 'log', '--format=%h', '-1'], capture_output=True, text=True).stdout.strip(),
}
json.dump(meta, open(os.path.join(dst, 'meta.json'), 'w'), indent=1)
print('kept', dst)
