#!/bin/bash
# Diagnostic (not a check): which lines of /repo/src do the quick checks execute?
# Builds the harness with the nightly toolchain and -C instrument-coverage into /verif/target/cov,
# runs every quick check, merges the profiles and prints per-file line coverage and the uncovered lines.
# Usage: tools/coverage.sh [C01 C02 ...]
set -u
cd /verif/harness
export CARGO_NET_OFFLINE=true
TOOLS=$(dirname $(rustup which --toolchain nightly rustc))/../lib/rustlib/x86_64-unknown-linux-gnu/bin
OUT=/verif/target/cov
mkdir -p $OUT/prof; rm -f $OUT/prof/*.profraw
RUSTFLAGS="-C instrument-coverage" cargo +nightly build --release --offline --target-dir $OUT >$OUT/build.log 2>&1 || { tail -20 $OUT/build.log; exit 2; }
BIN=$OUT/release/vcheck
PROPS="${@:-C01 C02 C03 C04 C05 C06 C07 C08 C09 C10 C11 C12 C13 C14 C15 C16 C17 C18}"
mkdir -p /tmp/cov-evidence
for p in $PROPS; do
  # evidence of these runs is irrelevant: keep the committed files
  cp /verif/evidence/$p.json /tmp/cov-evidence/ 2>/dev/null
  VERIF_COVERAGE=1 LLVM_PROFILE_FILE="$OUT/prof/$p-%p-%m.profraw" $BIN $p quick >/dev/null 2>&1
  cp /tmp/cov-evidence/$p.json /verif/evidence/ 2>/dev/null
  echo "ran $p ($(ls $OUT/prof | wc -l) profiles)"
done
$TOOLS/llvm-profdata merge -sparse $OUT/prof/*.profraw -o $OUT/merged.profdata 2>/dev/null
$TOOLS/llvm-cov report $BIN -instr-profile=$OUT/merged.profdata --ignore-filename-regex='(\.cargo|/rustc/|/verif/)' 2>/dev/null | tee $OUT/report.txt
$TOOLS/llvm-cov show $BIN -instr-profile=$OUT/merged.profdata --ignore-filename-regex='(\.cargo|/rustc/|/verif/)' --show-line-counts-or-regions 2>/dev/null > $OUT/show.txt
# uncovered lines (count 0) outside test modules
python3 - <<'PY'
import re
cur=None; out=[]
for l in open('/verif/target/cov/show.txt', errors='replace'):
    m=re.match(r'^(/repo/\S+):$', l.strip())
    if m: cur=m.group(1); continue
    m=re.match(r'^\s*(\d+)\|\s*0\|(.*)$', l)
    if m and cur: out.append((cur, int(m.group(1)), m.group(2).rstrip()))
print("\nUNCOVERED LINES in /repo/src (outside #[cfg(test)]):")
for f,n,t in out:
    print(f"{f}:{n}: {t[:110]}")
PY
